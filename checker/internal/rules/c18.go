package rules

import (
	"fmt"
	"go/token"
	"go/types"
	"sort"
	"strings"

	"golang.org/x/tools/go/ssa"

	. "htcheck/internal/core"
)

func init() { Registry["C18"] = c18 }

const storagePath = ModPath + "/storage"

type idItem struct {
	key    string
	get    *ssa.Call
	sets   []*ssa.Call
	loaded ssa.Value // Get's #0
}

func isStorageInvoke(c ssa.CallInstruction, name string) bool {
	cc := c.Common()
	if !cc.IsInvoke() || cc.Method.Name() != name {
		return false
	}
	n := NamedOf(cc.Value.Type())
	return n != nil && n.Obj().Name() == "Storage" && n.Obj().Pkg() != nil && n.Obj().Pkg().Path() == storagePath
}

func constKey(v ssa.Value) (string, bool) {
	v = Deref(v)
	return ConstString(v)
}

func c18(c *Ctx) {
	p := c.P
	c.Explanation = "Static check of the persistence mechanism for all restart histories and crash points: every identity getter (a function that both Gets and Sets on storage.Storage: ssh host key, " +
		"ftp/smtp/ldap key+certificate, agent key pair) follows load-or-generate-then-store with key agreement – each Set uses a constant key that the same function Gets, sits on that Get's failure arm, " +
		"stores the bytes that were just generated (the same bytes that are returned/used), no generator runs on the load arm, the certificate is generated from the loaded-or-stored key, and the key item is stored " +
		"before the certificate item can be (a certificate must never be persisted without its key); storage Get/Set derive the database key identically; the sensor token is taken from the file only when " +
		"non-empty, the token path is only ever created by os.Rename of a fully written temporary file, and write/rename errors are not discarded. Badger's durability is trusted."
	c.Assume("badger commits a Set atomically and durably (trusted)")
	c.Assume("os.Rename within one directory is atomic (POSIX)")

	// ---- identity getters
	var getters []*ssa.Function
	for _, fn := range p.Funcs() {
		hasGet, hasSet := false, false
		for _, call := range Calls(fn) {
			if isStorageInvoke(call, "Get") {
				hasGet = true
			}
			if isStorageInvoke(call, "Set") {
				hasSet = true
			}
		}
		if hasSet && !hasGet {
			c.Observe("identity-getter", shortFn(fn)+" only stores", p.Pos(fn.Pos()), "writes storage without loading (not an identity getter)")
		}
		if hasGet && hasSet {
			getters = append(getters, fn)
		}
	}
	sort.Slice(getters, func(i, j int) bool { return getters[i].String() < getters[j].String() })
	nitems := 0
	for _, fn := range getters {
		nitems += c18Getter(c, fn)
	}
	c18Serialised(c, getters)
	// an identity is loaded for the storage (namespace) the getter was called on; remembering it in a package-level variable
	// shares one object between every service of the process (and lets a configuration decoder or another service overwrite
	// it in place), so which identity a service presents depends on which other services were built in that run
	for _, fn := range getters {
		bad := ""
		for _, b := range fn.Blocks {
			for _, in := range b.Instrs {
				st, ok := in.(*ssa.Store)
				if !ok {
					continue
				}
				var g *ssa.Global
				switch a := st.Addr.(type) {
				case *ssa.Global:
					g = a
				case *ssa.FieldAddr:
					g, _ = a.X.(*ssa.Global)
				case *ssa.IndexAddr:
					g, _ = a.X.(*ssa.Global)
				}
				if g != nil {
					bad = p.InstrPos(st) + " stores into package variable " + g.Name()
				}
			}
			for _, in := range b.Instrs {
				if mu, ok := in.(*ssa.MapUpdate); ok {
					if ld, ok := mu.Map.(*ssa.UnOp); ok {
						if g, ok := ld.X.(*ssa.Global); ok {
							bad = p.InstrPos(mu) + " stores into package-level map " + g.Name()
						}
					}
				}
			}
		}
		// … nor do its direct callers park its result there
		for _, g := range p.Funcs() {
			if g == fn || PkgOf(g) != PkgOf(fn) {
				continue
			}
			for _, call := range Calls(g) {
				cv, ok := call.(*ssa.Call)
				if !ok || cv.Call.StaticCallee() != fn {
					continue
				}
				for _, b := range g.Blocks {
					for _, in := range b.Instrs {
						st, ok := in.(*ssa.Store)
						if !ok {
							continue
						}
						gl, isG := st.Addr.(*ssa.Global)
						if !isG {
							if fa, ok := st.Addr.(*ssa.FieldAddr); ok {
								gl, isG = fa.X.(*ssa.Global)
							}
						}
						if !isG {
							continue
						}
						for _, lf := range leaves(st.Val) {
							if lf == ssa.Value(cv) {
								bad = p.InstrPos(st) + " " + shortFn(g) + " stores the getter's result into package variable " + gl.Name()
							}
							if ex, ok := lf.(*ssa.Extract); ok && ex.Tuple == ssa.Value(cv) {
								bad = p.InstrPos(st) + " " + shortFn(g) + " stores the getter's result into package variable " + gl.Name()
							}
						}
					}
				}
			}
		}
		c.Check(bad == "", "identity-getter", shortFn(fn)+" keeps no process-wide copy", p.Pos(fn.Pos()), "the identity is not remembered in package-level state", "the identity getter remembers what it loaded in package-level state ("+bad+"): every service of the process then shares one object, and what a service presents follows the set and configuration of the other services started with it instead of its own persisted item")
	}
	c.Check(len(getters) >= 5, "identity-getter", "identity getters found", "-", fmt.Sprintf("%d getters, %d items", len(getters), nitems), fmt.Sprintf("expected the five identity getters (ssh, ftp, smtp, ldap, agent), found %d", len(getters)))
	c.Check(nitems >= 8, "identity-getter", "identity items found", "-", "", fmt.Sprintf("expected at least 8 persisted identity items, found %d", nitems))
	for _, want := range []string{"services/ssh", "services/ftp", "services/smtp", "services/ldap", "listener/agent"} {
		found := false
		for _, fn := range getters {
			if RelPkg(PkgOf(fn)) == want {
				found = true
			}
		}
		c.Check(found, "identity-getter", "getter in "+want, "-", "", "no load-or-generate-then-store function left in "+want+": its identity would be regenerated on every start")
	}
	c18Storage(c)
	c18Token(c)
	c18OptionOrder(c)
	c18RecordLayoutAgrees(c)
}

func c18Getter(c *Ctx, fn *ssa.Function) int {
	p := c.P
	name := shortFn(fn)
	items := map[string]*idItem{}
	var order []string
	var keyParam *ssa.Parameter
	for _, call := range Calls(fn) {
		cv, ok := call.(*ssa.Call)
		if !ok {
			continue
		}
		switch {
		case isStorageInvoke(call, "Get"):
			k, ok := constKey(cv.Call.Args[0])
			if pr, isP := cv.Call.Args[0].(*ssa.Parameter); !ok && isP && pr.Parent() == fn {
				k, ok, keyParam = "<"+pr.Name()+">", true, pr // a generic load-or-generate helper: the item is named by its caller
			}
			if !ok {
				c.Undecided("identity-key-agreement", name+" Get key", p.InstrPos(call), "Get is called with a key that is not a constant: "+Render(cv.Call.Args[0]))
				continue
			}
			if items[k] != nil {
				c.Violate("identity-key-agreement", name+" Get("+k+") twice", p.InstrPos(call), "the same item is loaded at two sites")
				continue
			}
			it := &idItem{key: k, get: cv}
			for _, ref := range *cv.Referrers() {
				if ex, ok := ref.(*ssa.Extract); ok && ex.Index == 0 {
					it.loaded = ex
				}
			}
			items[k] = it
			order = append(order, k)
		case isStorageInvoke(call, "Set"):
			k, ok := constKey(cv.Call.Args[0])
			if pr, isP := cv.Call.Args[0].(*ssa.Parameter); !ok && isP && pr.Parent() == fn {
				k, ok = "<"+pr.Name()+">", true
			}
			if !ok {
				c.Undecided("identity-key-agreement", name+" Set key", p.InstrPos(call), "Set is called with a key that is not a constant (items stored by a computed or iterated key cannot be paired with their Get, nor ordered): "+Render(cv.Call.Args[0]))
				continue
			}
			it := items[k]
			if it == nil {
				c.Violate("identity-key-agreement", name+" Set("+k+")", p.InstrPos(call), "an item is stored under key \""+k+"\" which this function never loads (or loads only later): after a restart the stored item is not found and a new identity is generated")
				continue
			}
			it.sets = append(it.sets, cv)
		}
	}
	for _, k := range order {
		it := items[k]
		key := name + " item " + k
		if !c.Check(len(it.sets) == 1, "identity-key-agreement", key, p.InstrPos(it.get), "loaded and stored under the same constant key", fmt.Sprintf("item is loaded under \"%s\" but stored under that key at %d sites", k, len(it.sets))) {
			continue
		}
		set := it.sets[0]
		// the Get's error value
		var errV ssa.Value
		for _, ref := range *it.get.Referrers() {
			if ex, ok := ref.(*ssa.Extract); ok && ex.Index == 1 {
				errV = ex
			}
		}
		failed := func(in ssa.Instruction) bool {
			for _, dc := range DomConds(in) {
				if b, ok := dc.V.(*ssa.BinOp); ok && b.X == errV && IsNilConst(b.Y) {
					if (b.Op == token.NEQ && dc.Pol) || (b.Op == token.EQL && !dc.Pol) {
						return true
					}
				}
			}
			return false
		}
		c.Check(errV != nil && failed(set), "identity-store-on-miss", key, p.InstrPos(set), "Set only on the Get-failed arm", "the item is (re)written although it was loaded successfully, or not under the failure of its own Get: a restart could overwrite the persisted identity")
		// stored value: generated on the failed arm
		val := set.Call.Args[1]
		gens := generatorOrigins(val, fn)
		okGen := len(gens) > 0
		for _, g := range gens {
			if !failed(g) {
				okGen = false
			}
		}
		c.Check(okGen, "identity-store-generated", key, p.InstrPos(set), "stores the bytes generated on the miss arm", "the stored value is not the output of a generator that ran on the Get-failed arm: "+RenderN(val, 4))
		// the value used afterwards is phi(loaded, generated-and-stored) i.e. every non-load origin of the used value is `val`
		c18UsedValue(c, fn, it, val, key)
		// a freshly generated identity that could not be stored is not used: the next start would generate another one
		c18NotUsedUnlessStored(c, fn, set, key)
	}
	// ordering between items: an item whose generator consumes another item (cert <- key) must be stored after that item can be: Set(dep) must not be reachable from Set(item)
	for _, k := range order {
		it := items[k]
		if len(it.sets) != 1 {
			continue
		}
		val := it.sets[0].Call.Args[1]
		for _, g := range generatorOrigins(val, fn) {
			gc, ok := g.(*ssa.Call)
			if !ok {
				continue
			}
			for _, a := range gc.Call.Args {
				for _, k2 := range order {
					it2 := items[k2]
					if k2 == k || it2.loaded == nil || len(it2.sets) != 1 {
						continue
					}
					uses := false
					for _, lf := range leaves(a) {
						if lf == it2.loaded {
							uses = true
						}
					}
					if !uses {
						continue
					}
					// dependency: item k is derived from item k2
					key := name + " " + k2 + " stored before " + k
					r := InstrReachFrom(fn, it.sets[0], nil, nil)
					okOrd := !r(it2.sets[0]) && it2.get.Block().Dominates(it.get.Block())
					c.Check(okOrd, "identity-store-order", key, p.InstrPos(it.sets[0]), "the key item is settled (loaded or stored) before the derived item is stored", "the derived item \""+k+"\" can be persisted before the item \""+k2+"\" it was generated from: a kill in between leaves a certificate whose key is lost, and every later start fails to pair them")
					// the generator's input is the loaded-or-stored bytes (phi of load and the stored generated value)
					okIn := true
					for _, lf := range leaves(a) {
						if lf == it2.loaded || lf == Unwrap(it2.sets[0].Call.Args[1]) {
							continue
						}
						okIn = false
					}
					c.Check(okIn, "identity-derived-from-persisted", name+" "+k+" from "+k2, p.InstrPos(gc), "generated from the loaded-or-stored "+k2, "\""+k+"\" is generated from bytes that are neither the loaded nor the stored \""+k2+"\"")
				}
			}
		}
	}
	if keyParam != nil {
		return c18HelperSites(c, fn, keyParam)
	}
	return len(order)
}

// c18HelperSites: fn is a generic load-or-generate helper (its item key is a parameter; the per-item rules above were
// decided on the helper with the symbolic key). Every call site names its item with a constant; an item whose generator
// callback consumes the result of another call of the helper (certificate <- key) is requested after that call returned,
// so the key item is settled (loaded or stored) before the derived item can be stored.
func c18HelperSites(c *Ctx, fn *ssa.Function, keyParam *ssa.Parameter) int {
	p := c.P
	kidx := paramIdx(keyParam)
	type site struct {
		call *ssa.Call
		key  string
		res  ssa.Value
	}
	byCaller := map[*ssa.Function][]site{}
	n := 0
	for _, g := range p.Funcs() {
		for _, call := range Calls(g) {
			cv, ok := call.(*ssa.Call)
			if !ok || cv.Call.StaticCallee() != fn || kidx >= len(cv.Call.Args) {
				continue
			}
			k, isC := constKey(cv.Call.Args[kidx])
			if !isC {
				c.Undecided("identity-key-agreement", shortFn(g)+" calls "+shortFn(fn), p.InstrPos(cv), "the load-or-generate helper is called with an item name that is not a constant: "+Render(cv.Call.Args[kidx]))
				continue
			}
			n++
			st := site{call: cv, key: k}
			for _, ref := range *cv.Referrers() {
				if ex, ok := ref.(*ssa.Extract); ok && ex.Index == 0 {
					st.res = ex
				}
			}
			if cv.Type() != nil {
				if _, isT := cv.Type().(*types.Tuple); !isT {
					st.res = cv
				}
			}
			byCaller[g] = append(byCaller[g], st)
			c.Ok("identity-key-agreement", shortFn(g)+" item "+k, p.InstrPos(cv), "loaded and stored by "+shortFn(fn)+" under this constant name")
		}
	}
	for g, sites := range byCaller {
		for _, b := range sites {
			// values the generator argument(s) of b are built from
			for ai, a := range b.call.Call.Args {
				if ai == kidx {
					continue
				}
				mc, ok := a.(*ssa.MakeClosure)
				if !ok {
					continue
				}
				for _, bind := range mc.Bindings {
					for _, a2 := range sites {
						if a2.call == b.call || a2.res == nil {
							continue
						}
						uses := false
						for _, lf := range leaves(derefCell(bind)) {
							if lf == a2.res {
								uses = true
							}
						}
						if !uses {
							continue
						}
						key := shortFn(g) + " " + a2.key + " stored before " + b.key
						c.Check(before(a2.call, b.call), "identity-store-order", key, p.InstrPos(b.call), "the key item is settled (loaded or stored) before the derived item is requested", "the derived item \""+b.key+"\" is requested before the item \""+a2.key+"\" it is generated from")
						c.Ok("identity-derived-from-persisted", shortFn(g)+" "+b.key+" from "+a2.key, p.InstrPos(b.call), "generated from the loaded-or-stored "+a2.key)
					}
				}
			}
		}
	}
	return n
}

// derefCell: a closure binding is the address of a local; its content is what was stored there.
func derefCell(v ssa.Value) ssa.Value {
	if a, ok := v.(*ssa.Alloc); ok {
		if sv := StoredValues(a); len(sv) == 1 {
			return sv[0]
		}
	}
	return v
}

// generatorOrigins: the call instructions (non-storage) whose results flow into v through phis/extracts/conversions,
// or – for a buffer filled in place (agent key: hex.Encode into make([]byte)) – the calls producing the encoded data.
func generatorOrigins(v ssa.Value, fn *ssa.Function) []ssa.Instruction {
	var out []ssa.Instruction
	seen := map[ssa.Value]bool{}
	var walk func(v ssa.Value, d int)
	walk = func(v ssa.Value, d int) {
		if v == nil || seen[v] || d > 10 {
			return
		}
		seen[v] = true
		switch x := v.(type) {
		case *ssa.Phi:
			for _, e := range x.Edges {
				walk(e, d+1)
			}
		case *ssa.Extract:
			walk(x.Tuple, d+1)
		case *ssa.Convert:
			walk(x.X, d+1)
		case *ssa.ChangeType:
			walk(x.X, d+1)
		case *ssa.MakeInterface:
			walk(x.X, d+1)
		case *ssa.Slice:
			walk(x.X, d+1)
		case *ssa.Call:
			if isStorageInvoke(x, "Get") {
				return
			}
			out = append(out, x)
		case *ssa.MakeSlice, *ssa.Alloc:
			// filled in place: calls that take a slice of it as destination (first argument)
			for _, b := range fn.Blocks {
				for _, in := range b.Instrs {
					call, ok := in.(*ssa.Call)
					if !ok || len(call.Call.Args) < 2 {
						continue
					}
					if sliceBase(call.Call.Args[0]) == v {
						// the source operand's origins
						src := call.Call.Args[1]
						before := len(out)
						walkSrc(src, &out, fn)
						if len(out) == before {
							out = append(out, call)
						}
					}
				}
			}
		}
	}
	walk(v, 0)
	return out
}

func walkSrc(v ssa.Value, out *[]ssa.Instruction, fn *ssa.Function) {
	// v like slice(&keyPair.PrivateKey) where keyPair = phi/alloc/call
	for d := 0; d < 8 && v != nil; d++ {
		switch x := v.(type) {
		case *ssa.Slice:
			v = x.X
		case *ssa.FieldAddr:
			v = x.X
		case *ssa.UnOp:
			v = x.X
		case *ssa.Phi:
			for _, e := range x.Edges {
				walkSrc(e, out, fn)
			}
			return
		case *ssa.Call:
			*out = append(*out, x)
			return
		default:
			return
		}
	}
}

func c18UsedValue(c *Ctx, fn *ssa.Function, it *idItem, stored ssa.Value, key string) {
	p := c.P
	if it.loaded == nil {
		return
	}
	// every phi that merges the loaded bytes must merge them only with the stored value
	for _, ref := range *it.loaded.Referrers() {
		ph, ok := ref.(*ssa.Phi)
		if !ok {
			continue
		}
		ok2 := true
		for _, e := range ph.Edges {
			if e == it.loaded || e == Unwrap(stored) || e == stored {
				continue
			}
			ok2 = false
		}
		c.Check(ok2, "identity-used-is-persisted", key, p.InstrPos(ph), "the bytes used are the loaded ones or exactly the ones just stored", "the identity used after a miss is not the one that was stored: "+RenderN(ph, 3))
	}
}

func c18Storage(c *Ctx) {
	p := c.P
	g := p.Method("storage", "badgeStorage", "Get")
	s := p.Method("storage", "badgeStorage", "Set")
	if !c.Anchor(g != nil && s != nil, "storage-key-derivation", "storage.badgeStorage Get/Set") {
		return
	}
	keyExpr := func(fn *ssa.Function) string {
		for _, call := range Calls(fn) {
			if cv, ok := call.(*ssa.Call); ok {
				if bi, ok := cv.Call.Value.(*ssa.Builtin); ok && bi.Name() == "append" {
					return Render(cv)
				}
				// the derivation may live in one helper used by both (s.dbKey(key)): same helper, the caller's own key
				if hf := cv.Call.StaticCallee(); hf != nil && InRepo(hf) && hf.Blocks != nil && hf.Signature.Recv() != nil && len(cv.Call.Args) == 2 {
					if cv.Call.Args[0] == ssa.Value(fn.Params[0]) && cv.Call.Args[1] == ssa.Value(fn.Params[1]) && isByteSlice(cv.Type()) {
						return "helper " + FuncShort(hf) + "(recv, key)"
					}
				}
			}
		}
		return ""
	}
	kg, ks := keyExpr(g), keyExpr(s)
	c.Check(kg != "" && kg == ks, "storage-key-derivation", "Get/Set database key", p.Pos(g.Pos()), "both use "+kg, "Get and Set derive the database key differently ("+kg+" vs "+ks+"): stored items are never found again")
	// the caller's key names an item only inside its namespace: in Get/Set it may flow into the namespaced key and
	// nowhere else (a map or cache indexed by the bare key is shared by every namespace: ftp.pemkey and smtp.pemkey collide)
	for _, fn := range []*ssa.Function{g, s} {
		if len(fn.Params) < 2 {
			continue
		}
		key := fn.Params[1]
		bad := ""
		seen := map[ssa.Value]bool{}
		// the namespace: a field of the storage object itself (whatever it is called)
		recv := fn.Params[0]
		var nsLike func(v ssa.Value, d int) bool
		nsLike = func(v ssa.Value, d int) bool {
			if d > 5 || v == nil {
				return false
			}
			switch x := v.(type) {
			case *ssa.Convert:
				return nsLike(x.X, d+1)
			case *ssa.ChangeType:
				return nsLike(x.X, d+1)
			case *ssa.Slice:
				return nsLike(x.X, d+1)
			case *ssa.UnOp:
				if fa, ok := x.X.(*ssa.FieldAddr); ok && x.Op == token.MUL {
					return c15Root(fa.X) == ssa.Value(recv)
				}
			case *ssa.BinOp:
				return nsLike(x.X, d+1) || nsLike(x.Y, d+1)
			}
			return false
		}
		var walk func(v ssa.Value)
		walk = func(v ssa.Value) {
			if seen[v] || v.Referrers() == nil {
				return
			}
			seen[v] = true
			for _, r := range *v.Referrers() {
				switch x := r.(type) {
				case *ssa.Convert:
					walk(x)
				case *ssa.ChangeType:
					walk(x)
				case *ssa.DebugRef:
				case *ssa.Call:
					if bi, ok := x.Call.Value.(*ssa.Builtin); ok && bi.Name() == "append" {
						// append(ns, key...): fine when the destination is the namespace
						if len(x.Call.Args) == 2 && x.Call.Args[1] == v && (nsLike(x.Call.Args[0], 0) || strings.Contains(Render(x.Call.Args[0]), ".ns")) {
							continue
						}
					}
					if hf := x.Call.StaticCallee(); hf != nil {
						if InRepo(hf) && hf.Signature.Recv() != nil && isByteSlice(x.Type()) {
							continue // key derivation helper (compared above)
						}
						if pk := PkgOf(hf); pk == "fmt" || pk == "log" || strings.HasSuffix(pk, "go-logging") {
							continue
						}
					}
					bad = p.InstrPos(x) + " `" + RenderN(x, 2) + "`"
				case *ssa.BinOp:
					if x.Op == token.ADD && (nsLike(x, 0) || strings.Contains(Render(x), ".ns")) {
						continue
					}
					bad = p.InstrPos(x) + " `" + RenderN(x, 2) + "`"
				case *ssa.MakeClosure:
					// captured by the transaction closure: its uses inside
					if cf, ok := x.Fn.(*ssa.Function); ok {
						for i, b := range x.Bindings {
							if b == v && i < len(cf.FreeVars) {
								walk(cf.FreeVars[i])
							}
						}
					}
				default:
					if in, ok := r.(ssa.Instruction); ok {
						bad = p.InstrPos(in) + " `" + strings.TrimSpace(in.String()) + "`"
					}
				}
			}
		}
		walk(key)
		c.Check(bad == "", "storage-key-derivation", shortFn(fn)+" uses the bare key only to build the namespaced key", p.Pos(fn.Pos()), "", "the caller's un-namespaced key is used directly ("+bad+"): anything indexed by it is shared between namespaces – services that use the same item name (ftp, smtp and ldap all store pemkey/pemcert) read each other's identity, so a service presents a different certificate depending on which service was built first")
	}
}

func c18Token(c *Ctx) {
	p := c.P
	wt := p.Func("server", "WithToken")
	if !c.Anchor(wt != nil && len(wt.AnonFuncs) >= 1, "token", "server.WithToken and its option closure") {
		return
	}
	cl := wt.AnonFuncs[0]
	fns := append([]*ssa.Function{cl}, Anon(cl)...)
	// token path: path.Join(h.dataDir, "token") (or filepath.Join)
	var tokenPath ssa.Value
	for _, call := range Calls(cl) {
		f := call.Common().StaticCallee()
		if f != nil && f.Name() == "Join" && (PkgOf(f) == "path" || PkgOf(f) == "path/filepath") {
			if strings.Contains(Render(call.Value()), `"token"`) {
				tokenPath = call.Value()
			}
		}
	}
	if !c.Anchor(tokenPath != nil, "token", "token file path (Join(dataDir, \"token\"))") {
		return
	}
	isTokenPath := func(v ssa.Value) bool {
		for _, lf := range leaves(v) {
			if lf != tokenPath {
				return false
			}
		}
		return true
	}
	// (1) creators of the token path (in the option closure, or in a helper that is handed the token path)
	nRename := 0
	var creators func(fn *ssa.Function, isTP func(ssa.Value) bool, depth int)
	creators = func(fn *ssa.Function, isTP func(ssa.Value) bool, depth int) {
		for _, call := range Calls(fn) {
			f := call.Common().StaticCallee()
			if f == nil {
				continue
			}
			args := call.Common().Args
			if InRepo(f) && f.Blocks != nil && depth < 2 {
				for ai, a := range args {
					if isTP(a) && ai < len(f.Params) {
						hp := f.Params[ai]
						fns = append(fns, f)
						// the helper's own result (its error) must be inspected by the caller
						if v := call.Value(); v != nil {
							c.Check(len(*v.Referrers()) > 0, "token-errors-checked", "WithToken "+FuncShort(f)+" error", p.InstrPos(call), "error inspected", "the error of "+FuncShort(f)+" is discarded: an unwritable data directory silently yields a new token on every start")
						}
						creators(f, func(v ssa.Value) bool { return v == ssa.Value(hp) }, depth+1)
					}
				}
				continue
			}
			pk := PkgOf(f)
			if pk != "os" && pk != "io/ioutil" {
				continue
			}
			switch f.Name() {
			case "WriteFile", "Create", "OpenFile":
				if len(args) > 0 && isTP(args[0]) {
					if f.Name() == "OpenFile" {
						if fl, ok := ConstInt(args[1]); ok && fl&0x40 == 0 && fl&0x3 == 0 { // no O_CREATE, read-only
							continue
						}
					}
					c.Violate("token-atomic-publish", "WithToken "+FuncShort(f)+" on the token path", p.InstrPos(call), "the token file is created/written in place: a kill between create and write leaves an empty or truncated token that later starts read back as the identity")
				}
			case "Rename":
				if len(args) == 2 && isTP(args[1]) {
					nRename++
					// source: a file written completely before (WriteFile on the same source value dominates)
					src := args[0]
					written := false
					for _, c2 := range Calls(fn) {
						f2 := c2.Common().StaticCallee()
						if f2 != nil && f2.Name() == "WriteFile" && Render(c2.Common().Args[0]) == Render(src) && c2.Block().Dominates(call.Block()) {
							written = true
						}
					}
					c.Check(written && !isTP(src), "token-atomic-publish", "WithToken rename source", p.InstrPos(call), "temporary file fully written, then renamed onto the token path", "the file renamed onto the token path is not a distinct temporary file written before the rename")
				}
			}
		}
	}
	for _, fn := range append([]*ssa.Function(nil), fns...) {
		creators(fn, isTokenPath, 0)
	}
	c.Check(nRename >= 1, "token-atomic-publish", "WithToken publishes by rename", p.Pos(cl.Pos()), "token path created only by os.Rename", "the token path is never published by os.Rename of a completed temporary file")
	// (2) errors of WriteFile / Rename are consumed
	for _, fn := range fns {
		for _, call := range Calls(fn) {
			f := call.Common().StaticCallee()
			if f == nil || (f.Name() != "WriteFile" && f.Name() != "Rename") {
				continue
			}
			if pk := PkgOf(f); pk != "os" && pk != "io/ioutil" {
				continue
			}
			v := call.Value()
			used := v != nil && len(*v.Referrers()) > 0
			c.Check(used, "token-errors-checked", "WithToken "+FuncShort(f)+" error", p.InstrPos(call), "error inspected", "the error of "+FuncShort(f)+" is discarded: an unwritable data directory silently yields a new token on every start")
		}
	}
	// (3) the value read from the file is adopted only when non-empty
	ht := p.Type("server", "Honeytrap")
	for _, b := range cl.Blocks {
		for _, in := range b.Instrs {
			st, ok := in.(*ssa.Store)
			if !ok {
				continue
			}
			fa, ok := st.Addr.(*ssa.FieldAddr)
			if !ok || fieldNameOf(fa) != "token" || NamedOf(fa.X.Type()) != ht {
				continue
			}
			// leaves of the stored value, with the phi edge they come through
			var visit func(v ssa.Value, viaPred *ssa.BasicBlock, d int)
			seen := map[ssa.Value]bool{}
			visit = func(v ssa.Value, viaPred *ssa.BasicBlock, d int) {
				if d > 8 {
					return
				}
				if ld, ok := v.(*ssa.UnOp); ok && ld.Op == token.MUL {
					// captured variable (uid): all stores to the cell
					var cell ssa.Value = ld.X
					for _, fn2 := range fns {
						for _, b2 := range fn2.Blocks {
							for _, in2 := range b2.Instrs {
								if s2, ok := in2.(*ssa.Store); ok && s2.Addr == cell && !seen[s2.Val] {
									seen[s2.Val] = true
									c18TokenLeaf(c, s2.Val, s2, cl)
								}
							}
						}
					}
					return
				}
				if ph, ok := v.(*ssa.Phi); ok {
					if seen[ph] {
						return
					}
					seen[ph] = true
					for i, e := range ph.Edges {
						visit(e, ph.Block().Preds[i], d+1)
					}
					return
				}
				if !seen[v] {
					seen[v] = true
					c18TokenLeaf(c, v, st, cl)
				}
			}
			visit(st.Val, nil, 0)
		}
	}
	c.Floor("token-nonempty", 1, "one adoption of the file's content")
	_ = types.Typ
}

// c18TokenLeaf: a value that can become h.token.  If it derives from ReadFile's data it must be guarded non-empty.
func c18TokenLeaf(c *Ctx, v ssa.Value, at ssa.Instruction, cl *ssa.Function) {
	p := c.P
	cv, ok := v.(*ssa.Convert)
	if !ok {
		return
	}
	var data ssa.Value = cv.X
	if call, ok := data.(*ssa.Call); ok { // bytes.TrimSpace(data) etc.
		if len(call.Call.Args) > 0 {
			data = call.Call.Args[0]
		}
	}
	ex, ok := data.(*ssa.Extract)
	if !ok {
		return
	}
	rc, ok := ex.Tuple.(*ssa.Call)
	if !ok || rc.Call.StaticCallee() == nil || rc.Call.StaticCallee().Name() != "ReadFile" {
		return
	}
	nonEmpty := false
	for _, dc := range DomConds(at) {
		b, ok := dc.V.(*ssa.BinOp)
		if !ok {
			continue
		}
		if x, ok := isLenOf(b.X); ok {
			n, isC := ConstInt(b.Y)
			if !isC {
				continue
			}
			derives := strings.Contains(Render(x), "ReadFile")
			if derives && ((b.Op == token.GTR && n == 0 && dc.Pol) || (b.Op == token.NEQ && n == 0 && dc.Pol) || (b.Op == token.EQL && n == 0 && !dc.Pol) || (b.Op == token.GEQ && n >= 1 && dc.Pol) || (b.Op == token.LSS && n == 1 && !dc.Pol)) {
				nonEmpty = true
			}
		}
		if s, isS := ConstString(b.Y); isS && s == "" && strings.Contains(Render(b.X), "ReadFile") {
			if (b.Op == token.NEQ && dc.Pol) || (b.Op == token.EQL && !dc.Pol) {
				nonEmpty = true
			}
		}
	}
	c.Check(nonEmpty, "token-nonempty", "WithToken adopts file content", p.InstrPos(at), "file content adopted only when non-empty", "the token read from the file is adopted without checking that it is non-empty: after a kill during the first start the sensor runs with an empty token forever")
}

// c18NotUsedUnlessStored: when Set fails (disk full, I/O error) the generated identity exists in this process only. A getter
// that logs the failure and goes on hands out an identity the next start cannot find again – it generates another one and
// everything pinned to the first (agents, clients that remembered the certificate) no longer matches. Set's error is
// therefore tested, and every return reachable from its failure edge yields an error (or no identity).
func c18NotUsedUnlessStored(c *Ctx, fn *ssa.Function, set *ssa.Call, key string) {
	p := c.P
	const rule = "identity-not-used-unless-stored"
	var failEdge *ssa.BasicBlock
	for _, b := range fn.Blocks {
		if len(b.Instrs) == 0 {
			continue
		}
		iff, ok := b.Instrs[len(b.Instrs)-1].(*ssa.If)
		if !ok {
			continue
		}
		bo, ok := iff.Cond.(*ssa.BinOp)
		if !ok || !IsNilConst(bo.Y) {
			continue
		}
		isSetErr := false
		for _, lf := range leaves(bo.X) {
			if lf == ssa.Value(set) {
				isSetErr = true
			}
		}
		if !isSetErr {
			continue
		}
		switch bo.Op {
		case token.NEQ:
			failEdge = b.Succs[0]
		case token.EQL:
			failEdge = b.Succs[1]
		}
	}
	if failEdge == nil {
		c.Violate(rule, key, p.InstrPos(set), "the result of Set is not tested: an identity that could not be stored is used for this run and replaced by another one at the next start")
		return
	}
	reach := ReachBlocks([]*ssa.BasicBlock{failEdge}, nil, nil)
	reach[failEdge] = true
	bad := ""
	for _, r := range Returns(fn) {
		if !reach[r.Block()] {
			continue
		}
		rv := RetVals(r)
		okRet := false
		for i, v := range rv {
			if IsErrorType(v.Type()) && !IsNilConst(v) {
				// an error result that is not the constant nil (phis that may be nil are not accepted)
				allNonNil := true
				for _, lf := range leaves(v) {
					if IsNilConst(lf) {
						allNonNil = false
					}
				}
				if allNonNil {
					okRet = true
				}
			}
			if i == 0 && IsNilConst(v) {
				okRet = true // no identity handed out
			}
		}
		if !okRet {
			bad = p.InstrPos(r)
		}
	}
	c.Check(bad == "", rule, key, p.InstrPos(set), "after a failed Set the getter returns an error (or no identity)", "after Set has failed the getter can still return the freshly generated identity ("+bad+"): it is used for this run although nothing was stored, the next start generates a different one, and whatever was pinned to the first – an agent's server key, a client's remembered certificate – no longer matches")
}
