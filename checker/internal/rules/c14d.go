package rules

import (
	"fmt"
	"go/token"
	"go/types"

	. "htcheck/internal/core"

	"golang.org/x/tools/go/ssa"
)

// c14PayloadIsWhatWasRead (rule decoder-payload-read-count): the port decoders of the raw listener report
// event.Payload(buff[:n]). The payload is a prefix of what the client sent only while n counts bytes a Read put into
// that buffer – the result of Read (summed over several reads, possibly in a helper). An n taken from anywhere else
// (a length field of the protocol, the buffer size) reports bytes nobody sent or cuts the first pushed segment.
func c14PayloadIsWhatWasRead(c *Ctx) {
	const rule = "decoder-payload-read-count"
	c.Explanation += " The port decoders report buff[:n] with n a (sum of) Read result(s)."
	p := c.P
	isConn := func(t types.Type) bool {
		n := NamedOf(t)
		return n != nil && n.Obj().Pkg() != nil && n.Obj().Pkg().Path() == "net" && n.Obj().Name() == "Conn"
	}
	readCount := readCountOf
	n := 0
	payloadFn := p.Func("event", "Payload")
	if !c.Anchor(payloadFn != nil, rule, "event.Payload") {
		return
	}
	for _, fn := range p.FuncsIn(canaryRel) {
		hasConn := false
		for _, pa := range fn.Params {
			if isConn(pa.Type()) {
				hasConn = true
			}
		}
		if !hasConn {
			continue
		}
		for _, call := range Calls(fn) {
			f := call.Common().StaticCallee()
			if f == nil || f != payloadFn || len(call.Common().Args) != 1 {
				continue
			}
			// the payload handed in by the callers of an event-building helper: judged where it is cut
			type site struct {
				arg ssa.Value
				at  ssa.Instruction
				in  *ssa.Function
			}
			sites := []site{{call.Common().Args[0], call, fn}}
			if par, isPar := Unwrap(call.Common().Args[0]).(*ssa.Parameter); isPar {
				sites = nil
				idx := paramIdx(par)
				for _, g := range p.FuncsIn(canaryRel) {
					for _, c2 := range Calls(g) {
						if c2.Common().StaticCallee() == fn && idx >= 0 && idx < len(c2.Common().Args) {
							sites = append(sites, site{c2.Common().Args[idx], c2, g})
						}
					}
				}
				if len(sites) == 0 {
					c.Undecided(rule, shortFn(fn)+" event.Payload", p.InstrPos(call), "the payload is a parameter of a function nobody calls")
					continue
				}
			}
			for _, s := range sites {
				n++
				key := shortFn(s.in) + " event.Payload"
				sl, ok := Unwrap(s.arg).(*ssa.Slice)
				if !ok {
					c.Violate(rule, key, p.InstrPos(s.at), "the payload of a port decoder is not a slice buff[:n] of its read buffer (`"+RenderN(s.arg, 3)+"`)")
					continue
				}
				okLow := sl.Low == nil
				if k, isC := sl.Low.(*ssa.Const); isC && k.Value != nil && k.Value.ExactString() == "0" {
					okLow = true
				}
				okHigh := sl.High != nil && readCount(sl.High, map[ssa.Value]bool{}, 0)
				c.Check(okLow && okHigh, rule, key, p.InstrPos(s.at), "buff[:n] with n the count Read returned", "the reported payload is `"+RenderN(sl, 3)+"` and its bound is not (a sum of) what Read returned for that buffer: bytes the client never sent are reported (zero padding up to a length the client announced) or the first pushed segment is cut short")
			}
		}
	}
	c.Check(n >= 6, rule, "decoder payload sites", "-", "", "fewer port decoders report a payload than the raw listener has")
}

// helperReturnsCount: every return of f yields, at result idx, a read count – in f's own terms, where a parameter stands
// for the caller's argument.
func helperReturnsCount(f *ssa.Function, idx int, args []ssa.Value, seen map[ssa.Value]bool, d int, rc func(ssa.Value, map[ssa.Value]bool, int) bool) bool {
	if f.Blocks == nil {
		return false
	}
	rets := Returns(f)
	if len(rets) == 0 {
		return false
	}
	var inHelper func(v ssa.Value, hs map[ssa.Value]bool, d2 int) bool
	inHelper = func(v ssa.Value, hs map[ssa.Value]bool, d2 int) bool {
		if d2 > 10 {
			return false
		}
		if hs[v] {
			return true
		}
		hs[v] = true
		switch x := v.(type) {
		case *ssa.Parameter:
			i := paramIdx(x)
			return i >= 0 && i < len(args) && rc(args[i], seen, d+1)
		case *ssa.Phi:
			for _, e := range x.Edges {
				if !inHelper(e, hs, d2+1) {
					return false
				}
			}
			return true
		case *ssa.BinOp:
			if x.Op == token.ADD {
				return inHelper(x.X, hs, d2+1) && inHelper(x.Y, hs, d2+1)
			}
			return false
		}
		return rc(v, map[ssa.Value]bool{}, d+1)
	}
	for _, r := range rets {
		vals := RetVals(r)
		if idx >= len(vals) || !inHelper(vals[idx], map[ssa.Value]bool{}, 0) {
			return false
		}
	}
	return true
}

// readCountOf: v is (a sum of) counts returned by Read on a buffer – directly, through φ/+/a spilled variable, or as the
// result of an in-repo helper whose returns are such counts.
func readCountOf(v ssa.Value, seen map[ssa.Value]bool, d int) bool {
	readCount := readCountOf
	if d > 10 {
		return false
	}
	if seen[v] {
		return true
	}
	seen[v] = true
	switch x := v.(type) {
	case *ssa.Const:
		return x.Value != nil && x.Value.ExactString() == "0"
	case *ssa.Extract:
		call, ok := x.Tuple.(*ssa.Call)
		if !ok {
			return false
		}
		cc := call.Common()
		if cc.IsInvoke() {
			return x.Index == 0 && cc.Method.Name() == "Read"
		}
		f := cc.StaticCallee()
		if f == nil {
			return false
		}
		if FuncIs(f, "io", "ReadFull") || FuncIs(f, "io", "ReadAtLeast") {
			return x.Index == 0
		}
		if !InRepo(f) {
			return x.Index == 0 && f.Name() == "Read"
		}
		// (buffer, count) := helper(conn): the count result of an in-repo helper
		return helperReturnsCount(f, x.Index, cc.Args, seen, d, readCount)
	case *ssa.Call:
		f := x.Call.StaticCallee()
		if f == nil || !InRepo(f) {
			return false
		}
		return helperReturnsCount(f, 0, x.Call.Args, seen, d, readCount)
	case *ssa.Phi:
		for _, e := range x.Edges {
			if !readCount(e, seen, d+1) {
				return false
			}
		}
		return true
	case *ssa.BinOp:
		if x.Op == token.ADD {
			return readCount(x.X, seen, d+1) && readCount(x.Y, seen, d+1)
		}
	case *ssa.UnOp:
		if x.Op == token.MUL {
			if a, ok := x.X.(*ssa.Alloc); ok {
				for _, sv := range StoredValues(a) {
					if !readCount(sv, seen, d+1) {
						return false
					}
				}
				return true
			}
		}
	}
	return false
}

// servicesPayloadIsWhatWasRead (rule payload-bounded-by-read-count): where a handler records event.Payload(buff[:x]) of a
// buffer it has just read into, x is what that Read returned. Bounded by anything else – the length the client
// announced, the buffer size – the payload's tail is whatever the buffer held before: zeros, or with a recycled buffer
// another client's bytes.
func servicesPayloadIsWhatWasRead(c *Ctx, rule, consequence string, rels ...string) {
	p := c.P
	payloadFn := p.Func("event", "Payload")
	if payloadFn == nil {
		return
	}
	n := 0
	for _, fn := range p.FuncsIn(rels...) {
		// buffers handed to a Read in this function
		readInto := map[ssa.Value]bool{}
		for _, call := range Calls(fn) {
			cc := call.Common()
			name := ""
			if cc.IsInvoke() {
				name = cc.Method.Name()
			} else if f := cc.StaticCallee(); f != nil {
				name = f.Name()
			}
			if name != "Read" && name != "ReadFull" && name != "ReadAtLeast" {
				continue
			}
			for _, a := range cc.Args {
				if isByteSlice(a.Type()) {
					for _, lf := range leaves(a) {
						readInto[lf] = true
						if sl, ok := lf.(*ssa.Slice); ok {
							readInto[sl.X] = true
						}
					}
				}
			}
		}
		if len(readInto) == 0 {
			continue
		}
		for _, call := range Calls(fn) {
			if call.Common().StaticCallee() != payloadFn || len(call.Common().Args) != 1 {
				continue
			}
			for _, lf := range leaves(call.Common().Args[0]) {
				sl, ok := lf.(*ssa.Slice)
				if !ok || sl.High == nil {
					continue
				}
				base := false
				for _, bl := range leaves(sl.X) {
					if readInto[bl] {
						base = true
					}
					if s2, ok := bl.(*ssa.Slice); ok && readInto[s2.X] {
						base = true
					}
				}
				if !base {
					continue
				}
				n++
				c.Check(readCountOf(sl.High, map[ssa.Value]bool{}, 0), rule, fmt.Sprintf("%s payload #%d", shortFn(fn), n), p.InstrPos(call), "cut at what Read returned", "the recorded payload is `"+RenderN(sl, 3)+"`, a buffer this handler read into, cut at something other than the count that Read returned: "+consequence)
			}
		}
	}
	c.Ok(rule, "payloads cut from read buffers", "-", fmt.Sprintf("%d examined in %v", n, rels))
}
