package rules

import (
	"fmt"
	"go/token"
	"go/types"
	"strings"

	"golang.org/x/tools/go/ssa"

	. "htcheck/internal/core"
)

func init() { Registry["C19"] = c19 }

func hasCond(cs []Cond, rendered string, pol bool) bool {
	for _, c := range cs {
		if c.Pol == pol && Render(c.V) == rendered {
			return true
		}
	}
	return false
}

// condNonNilErr: cs contain `v != nil` false / `v == nil` true for value v.
func condIsNil(cs []Cond, v ssa.Value) bool {
	for _, c := range cs {
		b, ok := c.V.(*ssa.BinOp)
		if !ok {
			continue
		}
		x, y := b.X, b.Y
		if IsNilConst(x) {
			x, y = y, x
		}
		if !IsNilConst(y) || x != v {
			continue
		}
		if (b.Op == token.NEQ && !c.Pol) || (b.Op == token.EQL && c.Pol) {
			return true
		}
	}
	return false
}

func c19(c *Ctx) {
	c.Explanation = "Static check of the port-table construction for all configurations: ToAddr's accept set (success only for exactly two '/'-separated parts, " +
		"port parsed by ParseUint(port,10,16), protocol tcp->ResolveTCPAddr / udp->ResolveUDPAddr, every other arm returns a nil address with an error) and, in Run, " +
		"guarded reachability of the two sinks hc.ports[addr]=services and listener.AddAddress(addr): each is unreachable from this port string's ToAddr call once any one of " +
		"the enabling edges (err==nil, addr!=nil, at least one resolved service, not a duplicate) is deleted; the duplicate flag is computed by compareAddr over the keys of the same table; " +
		"the service list is fresh per port string and built only from serviceList[name] hits over this entry's names; unknown names continue the scan; both `port` and `ports` feed the list; " +
		"AddAddress gets the key just stored."
	c.Assume("net.ResolveTCPAddr/ResolveUDPAddr/strconv.ParseUint behave as documented (trusted)")
	c.Assume("listener back ends bind exactly the addresses passed to AddAddress (not analysed)")
	c19ToAddr(c)
	c19Run(c)
	c19RangedListUntouched(c)
	c19PortOrderPreserved(c)
	// a datagram is looked up under the local address of the socket it arrived on (shared with C08)
	c08ListenerOwnVariables(c)
	c19ServiceEntriesComplete(c)
	// "a connection to a listened port can reach only the services listed for that entry"
	if find := c.P.Method("server", "Honeytrap", "findService"); c.Anchor(find != nil, "entry-services-only", "(*server.Honeytrap).findService") {
		c08Candidates(c, "entry-services-only", find)
	}
}

func c19ToAddr(c *Ctx) {
	p := c.P
	fn := p.Func("server", "ToAddr")
	if !c.Anchor(fn != nil, "toaddr", "server.ToAddr") {
		return
	}
	nsucc := 0
	for i, r := range Returns(fn) {
		rv := RetVals(r)
		if len(rv) != 4 {
			c.Violate("toaddr-accept-set", fmt.Sprintf("ToAddr return[%d]", i), p.InstrPos(r), "unexpected result arity")
			continue
		}
		key := fmt.Sprintf("ToAddr return[%d]", i)
		if IsNilConst(rv[0]) {
			// refusal: error must be non-nil (a fresh error value)
			_, isCall := rv[3].(*ssa.Call)
			c.Check(isCall && !IsNilConst(rv[3]), "toaddr-refusal", key, p.InstrPos(r), "nil address returned with an error", "a nil address is returned without an error value: the caller would treat the entry as parsed")
			continue
		}
		nsucc++
		conds := DomConds(r)
		// address from Resolve*Addr
		addr := Unwrap(rv[0])
		var resolver string
		var rcall *ssa.Call
		if ex, ok := addr.(*ssa.Extract); ok && ex.Index == 0 {
			if call, ok := ex.Tuple.(*ssa.Call); ok {
				if f := call.Call.StaticCallee(); f != nil && f.Pkg != nil && f.Pkg.Pkg.Path() == "net" {
					resolver = f.Name()
					rcall = call
				}
			}
		}
		var proto string
		switch resolver {
		case "ResolveTCPAddr":
			proto = "tcp"
		case "ResolveUDPAddr":
			proto = "udp"
		}
		if !c.Check(proto != "", "toaddr-accept-set", key+" resolver", p.InstrPos(r), "address from net."+resolver, "a non-nil address is returned that does not come from net.ResolveTCPAddr/ResolveUDPAddr: "+Render(rv[0])) {
			continue
		}
		// error result is the resolver's
		c.Check(isExtract(rv[3], rcall, 1), "toaddr-accept-set", key+" error", p.InstrPos(r), "resolver's error propagated", "resolver error is not propagated: "+Render(rv[3]))
		// network argument constant equals proto
		if n, ok := ConstString(rcall.Call.Args[0]); !ok || n != proto {
			c.Violate("toaddr-accept-set", key+" network", p.InstrPos(rcall), "resolver network argument is not \""+proto+"\"")
		} else {
			c.Ok("toaddr-accept-set", key+" network", p.InstrPos(rcall), "")
		}
		// conditions: len(parts)==2 ; ParseUint err == nil with base 10, 16 bits; proto string == "tcp"/"udp"
		okParts, okPort, okProto := false, false, false
		var pu *ssa.Call
		for _, dc := range conds {
			b, ok := dc.V.(*ssa.BinOp)
			if !ok {
				continue
			}
			if src, sep, ok := exactlyTwoParts(dc); ok && sep == "/" && src == ssa.Value(fn.Params[0]) {
				okParts = true
				_ = src
			}
			if ex, ok := b.X.(*ssa.Extract); ok && ex.Index == 1 && IsNilConst(b.Y) && ((b.Op == token.NEQ && !dc.Pol) || (b.Op == token.EQL && dc.Pol)) {
				if call, ok := ex.Tuple.(*ssa.Call); ok && FuncIs(call.Call.StaticCallee(), "strconv", "ParseUint") {
					base, _ := ConstInt(call.Call.Args[1])
					bits, _ := ConstInt(call.Call.Args[2])
					if base == 10 && bits == 16 {
						okPort = true
						pu = call
					}
				}
			}
			if s, ok := ConstString(b.Y); ok && s == proto && b.Op == token.EQL && dc.Pol {
				// the protocol is the part of the input before its single '/'
				if src, sep, idx, isPart := splitPartOf(b.X); isPart && sep == "/" && idx == 0 && src == ssa.Value(fn.Params[0]) {
					okProto = true
				}
			}
		}
		c.Check(okParts, "toaddr-accept-set", key+" two-parts", p.InstrPos(r), "len(strings.Split(input,\"/\"))==2", "success without exactly two '/'-separated parts")
		c.Check(okPort, "toaddr-accept-set", key+" port-range", p.InstrPos(r), "ParseUint(port,10,16) succeeded (0..65535)", "success without strconv.ParseUint(port, 10, 16) having succeeded: ports outside 0..65535 or non-decimal accepted")
		c.Check(okProto, "toaddr-accept-set", key+" protocol", p.InstrPos(r), "protocol part == \""+proto+"\"", "resolver "+resolver+" used without the protocol part being \""+proto+"\"")
		// the parsed port string is the one joined into the resolver input
		if pu != nil {
			j, ok := rcall.Call.Args[1].(*ssa.Call)
			okJ := ok && FuncIs(j.Call.StaticCallee(), "net", "JoinHostPort") && j.Call.Args[1] == pu.Call.Args[0]
			c.Check(okJ, "toaddr-accept-set", key+" same-port", p.InstrPos(rcall), "resolver gets the validated port string", "the port string resolved is not the one validated by ParseUint")
			c.Check(isConvOfExtract(rv[2], pu, 0), "toaddr-accept-set", key+" port-result", p.InstrPos(r), "", "numeric port result is not the parsed value: "+Render(rv[2]))
		}
	}
	c.Check(nsucc == 2, "toaddr-accept-set", "ToAddr success arms", p.Pos(fn.Pos()), "exactly tcp and udp", fmt.Sprintf("expected exactly two accepting arms (tcp, udp), found %d", nsucc))
	c.Floor("toaddr-refusal", 3, "format, port, protocol refusals")
}

func c19Run(c *Ctx) {
	p := c.P
	run := p.Method("server", "Honeytrap", "Run")
	toAddr := p.Func("server", "ToAddr")
	if !c.Anchor(run != nil && toAddr != nil, "port-table", "(*server.Honeytrap).Run and ToAddr") {
		return
	}
	ht := p.Type("server", "Honeytrap")
	portsIdx := -1
	st := ht.Underlying().(*types.Struct)
	for i := 0; i < st.NumFields(); i++ {
		if st.Field(i).Name() == portTableField(p) {
			portsIdx = i
		}
	}
	if !c.Anchor(portsIdx >= 0, "port-table", "field Honeytrap.ports") {
		return
	}
	isPortsLoad := func(v ssa.Value) bool {
		ld, ok := v.(*ssa.UnOp)
		if !ok || ld.Op != token.MUL {
			return false
		}
		fa, ok := ld.X.(*ssa.FieldAddr)
		return ok && fa.Field == portsIdx && NamedOf(fa.X.Type()) == ht
	}
	// who may write the table: program-wide, only Run
	for _, fn := range p.Funcs() {
		for _, b := range fn.Blocks {
			for _, in := range b.Instrs {
				switch x := in.(type) {
				case *ssa.MapUpdate:
					if isPortsLoad(x.Map) && fn != run {
						c.Violate("port-table-writers", shortFn(fn)+" writes Honeytrap.ports", p.InstrPos(x), "the port table is written outside Run's configuration loop")
					}
				case *ssa.Store:
					if fa, ok := x.Addr.(*ssa.FieldAddr); ok && fa.Field == portsIdx && NamedOf(fa.X.Type()) == ht {
						_, isMake := x.Val.(*ssa.MakeMap)
						c.Check(isMake && (fn == run), "port-table-writers", shortFn(fn)+" assigns Honeytrap.ports", p.InstrPos(x), "fresh empty table", "Honeytrap.ports is replaced by something other than a fresh map in Run")
					}
				}
			}
		}
	}
	c.Floor("port-table-writers", 1, "make(map) in Run")

	var tcall *ssa.Call
	for _, call := range Calls(run) {
		if call.Common().StaticCallee() == toAddr {
			if tcall != nil {
				c.Violate("port-table", "Run calls ToAddr once", p.InstrPos(call), "more than one ToAddr call site in Run: the rule models one port loop")
				return
			}
			tcall, _ = call.(*ssa.Call)
		}
	}
	if !c.Anchor(tcall != nil, "port-table", "ToAddr call in Run") {
		return
	}
	// sinks
	var mapUpd *ssa.MapUpdate
	var addAddr *ssa.Call
	for _, b := range run.Blocks {
		for _, in := range b.Instrs {
			switch x := in.(type) {
			case *ssa.MapUpdate:
				if isPortsLoad(x.Map) {
					if mapUpd != nil {
						c.Violate("port-table", "single table update", p.InstrPos(x), "more than one update of Honeytrap.ports in Run")
					}
					mapUpd = x
				}
			case *ssa.Call:
				if x.Call.IsInvoke() && x.Call.Method.Name() == "AddAddress" {
					if addAddr != nil {
						c.Violate("port-table", "single AddAddress", p.InstrPos(x), "more than one AddAddress call in Run")
					}
					addAddr = x
				}
			}
		}
	}
	if !c.Anchor(mapUpd != nil && addAddr != nil, "port-table", "hc.ports[addr]=… and AddAddress(addr) in Run") {
		return
	}
	addrV := ssa.Value(nil)
	errV := ssa.Value(nil)
	for _, ref := range *tcall.Referrers() {
		if ex, ok := ref.(*ssa.Extract); ok {
			switch ex.Index {
			case 0:
				addrV = ex
			case 3:
				errV = ex
			}
		}
	}
	if !c.Check(addrV != nil && errV != nil, "port-table", "ToAddr results used", p.InstrPos(tcall), "address and error results are both consumed", "Run ignores ToAddr's address or error result") {
		return
	}
	// key and AddAddress argument are this iteration's address
	c.Check(Unwrap(mapUpd.Key) == addrV, "port-table", "table key", p.InstrPos(mapUpd), "key = ToAddr's address", "table key is not the address parsed from this port string: "+Render(mapUpd.Key))
	c.Check(Unwrap(addAddr.Call.Args[0]) == addrV, "port-table", "AddAddress argument", p.InstrPos(addAddr), "argument = ToAddr's address", "AddAddress is given something other than the parsed address: "+Render(addAddr.Call.Args[0]))
	// listener: the AddAddress receiver derives from the listener constructed from configuration (type-assert of l)
	// guarded reachability
	svcList := mapUpd.Value
	type guard struct {
		name  string
		match func(atom ssa.Value) (enablingWhenTrue bool, ok bool)
	}
	var foundPhi ssa.Value
	guards := []guard{
		{"err==nil", func(a ssa.Value) (bool, bool) {
			b, ok := a.(*ssa.BinOp)
			if !ok || !(b.X == errV && IsNilConst(b.Y)) {
				return false, false
			}
			return b.Op == token.EQL, b.Op == token.EQL || b.Op == token.NEQ
		}},
		{"addr!=nil", func(a ssa.Value) (bool, bool) {
			b, ok := a.(*ssa.BinOp)
			if !ok || !(b.X == addrV && IsNilConst(b.Y)) {
				return false, false
			}
			return b.Op == token.NEQ, b.Op == token.EQL || b.Op == token.NEQ
		}},
		{"len(services)!=0", func(a ssa.Value) (bool, bool) {
			b, ok := a.(*ssa.BinOp)
			if !ok {
				return false, false
			}
			call, ok := b.X.(*ssa.Call)
			if !ok {
				return false, false
			}
			bi, ok := call.Call.Value.(*ssa.Builtin)
			if !ok || bi.Name() != "len" || call.Call.Args[0] != svcList {
				return false, false
			}
			n, isC := ConstInt(b.Y)
			if !isC {
				return false, false
			}
			switch {
			case b.Op == token.EQL && n == 0:
				return false, true
			case (b.Op == token.NEQ || b.Op == token.GTR) && n == 0:
				return true, true
			case b.Op == token.GEQ && n == 1:
				return true, true
			case b.Op == token.LSS && n == 1:
				return false, true
			}
			return false, false
		}},
	}
	findIf := func(g guard) (*ssa.If, int) {
		for _, b := range run.Blocks {
			if len(b.Instrs) == 0 {
				continue
			}
			iff, ok := b.Instrs[len(b.Instrs)-1].(*ssa.If)
			if !ok {
				continue
			}
			atom, pol0 := condAtom(iff.Cond)
			enTrue, ok := g.match(atom)
			if !ok {
				continue
			}
			idx := 0
			if enTrue != pol0 {
				idx = 1
			}
			return iff, idx
		}
		return nil, 0
	}
	stopAtToAddr := func(in ssa.Instruction) bool { return in == ssa.Instruction(tcall) }
	checkGuard := func(name string, iff *ssa.If, enIdx int) {
		if iff == nil {
			c.Violate("port-sinks-guarded", name, p.InstrPos(tcall), "no branch on `"+name+"` between ToAddr and the port table / AddAddress")
			return
		}
		allow := func(b *ssa.BasicBlock, i int) bool { return !(b == iff.Block() && i == enIdx) }
		r := InstrReachFrom(run, tcall, allow, stopAtToAddr)
		for _, s := range []struct {
			n  string
			in ssa.Instruction
		}{{"hc.ports[addr]=…", mapUpd}, {"AddAddress(addr)", addAddr}} {
			c.Check(!r(s.in), "port-sinks-guarded", name+" before "+s.n, p.InstrPos(s.in), "unreachable from this port string's ToAddr without "+name, s.n+" is reachable for a port string without passing `"+name+"`: malformed, service-less or duplicate entries would be listened on / registered (and shadow later entries)")
		}
	}
	for _, g := range guards {
		iff, idx := findIf(g)
		checkGuard(g.name, iff, idx)
	}
	// duplicate flag: an If on a bool phi whose `true` leaves are injected under compareAddr(key-of-range(hc.ports), addr)==true
	var dupIf *ssa.If
	dupIdx := 0
	for _, b := range run.Blocks {
		if len(b.Instrs) == 0 || !tcall.Block().Dominates(b) {
			continue
		}
		iff, ok := b.Instrs[len(b.Instrs)-1].(*ssa.If)
		if !ok {
			continue
		}
		atom, pol0 := condAtom(iff.Cond)
		ph, ok := atom.(*ssa.Phi)
		if !ok || !types.Identical(ph.Type().Underlying(), types.Typ[types.Bool]) {
			continue
		}
		// candidate: every true-const injection is under compareAddr(k, addr)
		okFlag, n := true, 0
		seen := map[*ssa.Phi]bool{}
		var walk func(w *ssa.Phi)
		walk = func(w *ssa.Phi) {
			if seen[w] {
				return
			}
			seen[w] = true
			for i, e := range w.Edges {
				if u, ok := e.(*ssa.Phi); ok {
					walk(u)
					continue
				}
				k, ok := e.(*ssa.Const)
				if !ok {
					okFlag = false
					continue
				}
				if k.Value.String() != "true" {
					continue
				}
				n++
				pred := w.Block().Preds[i]
				good := false
				for _, dc := range DomCondsBlock(pred) {
					if call, ok := dc.V.(*ssa.Call); ok && dc.Pol && isCompareAddr(c.P, call.Call.StaticCallee()) {
						a0, a1 := call.Call.Args[0], call.Call.Args[1]
						isKey := func(v ssa.Value) bool {
							ex, ok := v.(*ssa.Extract)
							if !ok || ex.Index != 1 {
								return false
							}
							nx, ok := ex.Tuple.(*ssa.Next)
							if !ok {
								return false
							}
							rg, ok := nx.Iter.(*ssa.Range)
							return ok && isPortsLoad(rg.X)
						}
						if (isKey(a0) && Unwrap(a1) == addrV) || (isKey(a1) && Unwrap(a0) == addrV) {
							good = true
						}
					}
				}
				if !good {
					okFlag = false
				}
			}
		}
		walk(ph)
		if okFlag && n > 0 {
			dupIf = iff
			foundPhi = ph
			// enabling edge: flag false
			dupIdx = 1
			if !pol0 {
				dupIdx = 0
			}
		}
	}
	_ = foundPhi
	// the duplicate test may live in a helper: `if hc.isPortDefined(addr)` whose true-returns sit under
	// compareAddr(range key of the ports table, <the address parameter>) and whose false-return follows the whole scan
	if dupIf == nil {
		for _, b := range run.Blocks {
			if len(b.Instrs) == 0 || !tcall.Block().Dominates(b) {
				continue
			}
			iff, ok := b.Instrs[len(b.Instrs)-1].(*ssa.If)
			if !ok {
				continue
			}
			atom, pol0 := condAtom(iff.Cond)
			hc, ok := atom.(*ssa.Call)
			if !ok {
				continue
			}
			hf := hc.Call.StaticCallee()
			if hf == nil || !InRepo(hf) || hf.Blocks == nil || !types.Identical(hf.Signature.Results().At(0).Type().Underlying(), types.Typ[types.Bool]) {
				continue
			}
			var ap *ssa.Parameter
			for i, a := range hc.Call.Args {
				if Unwrap(a) == addrV && i < len(hf.Params) {
					ap = hf.Params[i]
				}
			}
			if ap == nil {
				continue
			}
			good, nTrue := true, 0
			underCmp := func(conds []Cond) bool {
				for _, dc := range conds {
					call, pol := condCall(dc)
					if call == nil || !pol || !isCompareAddr(c.P, call.Call.StaticCallee()) {
						continue
					}
					isKey := func(v ssa.Value) bool {
						ex, ok := v.(*ssa.Extract)
						if !ok || ex.Index != 1 {
							return false
						}
						nx, ok := ex.Tuple.(*ssa.Next)
						if !ok {
							return false
						}
						rg, ok := nx.Iter.(*ssa.Range)
						if !ok {
							return false
						}
						_, isPorts := isFieldLoadNamed(rg.X, portTableField(c.P))
						return isPorts
					}
					a0, a1 := call.Call.Args[0], call.Call.Args[1]
					if (isKey(a0) && Unwrap(a1) == ssa.Value(ap)) || (isKey(a1) && Unwrap(a0) == ssa.Value(ap)) {
						return true
					}
				}
				return false
			}
			for _, r := range Returns(hf) {
				// `found := false; for k := range ports { if compareAddr(k, addr) { found = true } }; return found`
				if ph, isPhi := RetVals(r)[0].(*ssa.Phi); isPhi {
					seenPh := map[*ssa.Phi]bool{}
					var walkPh func(w *ssa.Phi)
					walkPh = func(w *ssa.Phi) {
						if seenPh[w] {
							return
						}
						seenPh[w] = true
						for i, e := range w.Edges {
							if u, ok := e.(*ssa.Phi); ok {
								walkPh(u)
								continue
							}
							k, ok := e.(*ssa.Const)
							if !ok {
								good = false
								continue
							}
							if k.Value.String() != "true" {
								continue
							}
							nTrue++
							if !underCmp(DomCondsBlock(w.Block().Preds[i])) {
								good = false
							}
						}
					}
					walkPh(ph)
					if InLoop(r.Block()) {
						good = false
					}
					continue
				}
				k, isK := RetVals(r)[0].(*ssa.Const)
				if !isK {
					good = false
					continue
				}
				if k.Value.String() != "true" {
					if InLoop(r.Block()) {
						good = false // gives up before every existing key was compared
					}
					continue
				}
				nTrue++
				under := false
				for _, dc := range DomConds(r) {
					call, pol := condCall(dc)
					if call == nil || !pol || !isCompareAddr(c.P, call.Call.StaticCallee()) {
						continue
					}
					isKey := func(v ssa.Value) bool {
						ex, ok := v.(*ssa.Extract)
						if !ok || ex.Index != 1 {
							return false
						}
						nx, ok := ex.Tuple.(*ssa.Next)
						if !ok {
							return false
						}
						rg, ok := nx.Iter.(*ssa.Range)
						if !ok {
							return false
						}
						_, isPorts := isFieldLoadNamed(rg.X, portTableField(c.P))
						return isPorts
					}
					a0, a1 := call.Call.Args[0], call.Call.Args[1]
					if (isKey(a0) && Unwrap(a1) == ssa.Value(ap)) || (isKey(a1) && Unwrap(a0) == ssa.Value(ap)) {
						under = true
					}
				}
				if !under {
					good = false
				}
			}
			if good && nTrue > 0 {
				dupIf = iff
				dupIdx = 1 // enabling edge: not a duplicate
				if !pol0 {
					dupIdx = 0
				}
			}
		}
	}
	// third form: no flag at all – `for k := range hc.ports { if compareAddr(k, addr) { …; continue nextPort } }`: from the edge on
	// which an existing key matched, neither sink can be reached before the next port string's ToAddr
	dupDirect := false
	if dupIf == nil {
		for _, b := range run.Blocks {
			if len(b.Instrs) == 0 || !tcall.Block().Dominates(b) {
				continue
			}
			iff, ok := b.Instrs[len(b.Instrs)-1].(*ssa.If)
			if !ok {
				continue
			}
			atom, pol0 := condAtom(iff.Cond)
			call, ok := atom.(*ssa.Call)
			if !ok || !isCompareAddr(c.P, call.Call.StaticCallee()) {
				continue
			}
			isKey := func(v ssa.Value) bool {
				ex, ok := v.(*ssa.Extract)
				if !ok || ex.Index != 1 {
					return false
				}
				nx, ok := ex.Tuple.(*ssa.Next)
				if !ok {
					return false
				}
				rg, ok := nx.Iter.(*ssa.Range)
				return ok && isPortsLoad(rg.X)
			}
			a0, a1 := call.Call.Args[0], call.Call.Args[1]
			if !((isKey(a0) && Unwrap(a1) == addrV) || (isKey(a1) && Unwrap(a0) == addrV)) {
				continue
			}
			matchIdx := 0
			if !pol0 {
				matchIdx = 1
			}
			start := b.Succs[matchIdx]
			reach := ReachBlocks([]*ssa.BasicBlock{start}, nil, map[*ssa.BasicBlock]bool{tcall.Block(): true})
			if !reach[mapUpd.Block()] && !reach[addAddr.Block()] {
				dupDirect = true
				c.Ok("duplicate-detection", "duplicate flag", p.InstrPos(iff), "a match with an existing key (compareAddr(range key of hc.ports, addr)) leaves for the next port string")
				for _, sn := range []string{"hc.ports[addr]=…", "AddAddress(addr)"} {
					c.Ok("port-sinks-guarded", "not-duplicate before "+sn, p.InstrPos(iff), "unreachable from the edge on which an existing key matched")
				}
			}
		}
	}
	if dupDirect {
		// decided above
	} else if dupIf == nil {
		c.Violate("duplicate-detection", "duplicate flag", p.InstrPos(tcall), "no branch on a flag that is set exactly when compareAddr(existing key of hc.ports, addr) holds: first-wins for compatible duplicate entries is not enforced")
	} else {
		c.Ok("duplicate-detection", "duplicate flag", p.InstrPos(dupIf), "flag set under compareAddr(range key of hc.ports, addr)")
		checkGuard("not-duplicate", dupIf, dupIdx)
		// the scan over existing keys must not stop early on a non-match: the range loop's only exits are exhaustion (and optionally after a match)
	}
	c.Floor("port-sinks-guarded", 8, "4 guards x 2 sinks")

	// service list provenance
	c19ServiceList(c, run, tcall, svcList)
	// first-wins for compatible entries rests on compareAddr treating an unset IP on EITHER side as a wildcard (the duplicate
	// test passes the new address second, the selector passes the configured key first): same rule as C08
	c08CompareAddr(c)

	// ports list feeds from both spellings: ToAddr's argument is an element of phi/append over x.Ports and x.Port
	arg := tcall.Call.Args[0]
	s := Render(arg)
	okBoth := strings.Contains(s, ".Ports") && strings.Contains(s, ".Port)") || (strings.Contains(s, ".Ports") && strings.Contains(s, ".Port"))
	// stricter: find append(..., x.Port) in provenance
	hasPort, hasPorts := false, false
	var walkv func(v ssa.Value, d int)
	seenv := map[ssa.Value]bool{}
	walkv = func(v ssa.Value, d int) {
		if v == nil || seenv[v] || d > 12 {
			return
		}
		seenv[v] = true
		switch x := v.(type) {
		case *ssa.UnOp:
			if fa, ok := x.X.(*ssa.FieldAddr); ok {
				switch fieldNameOf(fa) {
				case "Port":
					hasPort = true
				case "Ports":
					hasPorts = true
				}
				return
			}
			walkv(x.X, d+1)
		case *ssa.IndexAddr:
			walkv(x.X, d+1)
		case *ssa.Phi:
			for _, e := range x.Edges {
				walkv(e, d+1)
			}
		case *ssa.Call:
			for _, a := range x.Call.Args {
				walkv(a, d+1)
			}
		case *ssa.Slice:
			walkv(x.X, d+1)
		case *ssa.Alloc:
			for _, sv := range StoredValues(x) {
				walkv(sv, d+1)
			}
			// array literal elements
			for _, ref := range *x.Referrers() {
				if ia, ok := ref.(*ssa.IndexAddr); ok {
					for _, r2 := range *ia.Referrers() {
						if st, ok := r2.(*ssa.Store); ok {
							walkv(st.Val, d+1)
						}
					}
				}
			}
		}
	}
	walkv(arg, 0)
	c.Check(hasPort && hasPorts && okBoth || (hasPort && hasPorts), "both-spellings", "ToAddr input", p.InstrPos(tcall), "port strings come from both `ports` and `port`", "the port strings parsed do not include both the `port` and the `ports` configuration keys: "+s)
}

func c19ServiceList(c *Ctx, run *ssa.Function, tcall *ssa.Call, svcList ssa.Value) {
	p := c.P
	// leaves through phi and append(base, elem)
	okAll := true
	nElems := 0
	seen := map[ssa.Value]bool{}
	var detail []string
	var nilPreds []*ssa.BasicBlock
	var entryAllocs []*ssa.Alloc
	// when the list is built by a helper (resolveServices(table, used, x.Services, port)) the same rules are decided on the
	// helper's returned value, with its parameters standing for the arguments of that one call
	var hcall *ssa.Call
	cur := run
	argOf := func(v ssa.Value) ssa.Value {
		if pr, ok := v.(*ssa.Parameter); ok && hcall != nil && pr.Parent() == cur {
			if i := paramIdx(pr); i >= 0 && i < len(hcall.Call.Args) {
				return hcall.Call.Args[i]
			}
		}
		return v
	}
	var walk func(v ssa.Value)
	walk = func(v ssa.Value) {
		if seen[v] {
			return
		}
		seen[v] = true
		switch x := v.(type) {
		case *ssa.Phi:
			for i, e := range x.Edges {
				if IsNilConst(e) {
					// fresh-per-port: the nil is injected on an edge inside this port string's iteration (a helper's own nil is fresh per call)
					if hcall == nil {
						nilPreds = append(nilPreds, x.Block().Preds[i])
					}
					continue
				}
				walk(e)
			}
		case *ssa.Const:
			if !IsNilConst(x) {
				okAll = false
			}
			if !tcall.Block().Dominates(tcall.Block()) {
				okAll = false
			}
		case *ssa.Call:
			bi, ok := x.Call.Value.(*ssa.Builtin)
			if hf := x.Call.StaticCallee(); !ok && hcall == nil && hf != nil && InRepo(hf) && hf.Blocks != nil && len(Returns(hf)) > 0 {
				hcall, cur = x, hf
				for _, r := range Returns(hf) {
					walk(RetVals(r)[0])
				}
				hcall, cur = nil, run
				return
			}
			if !ok || bi.Name() != "append" || len(x.Call.Args) != 2 {
				okAll = false
				detail = append(detail, "service list built by something other than append: "+Render(x))
				return
			}
			walk(x.Call.Args[0])
			// element(s): a one-element slice of a local array whose element is serviceList[name]#0 under #1 true
			nElems++
			elem := appendedElem(x.Call.Args[1])
			if elem == nil {
				okAll = false
				detail = append(detail, "cannot resolve the appended element: "+Render(x.Call.Args[1]))
				return
			}
			ex, ok := elem.(*ssa.Extract)
			var lk *ssa.Lookup
			if ok && ex.Index == 0 {
				lk, _ = ex.Tuple.(*ssa.Lookup)
			}
			if lk == nil || !lk.CommaOk {
				okAll = false
				detail = append(detail, "appended service is not a comma-ok lookup in the service table: "+Render(elem))
				return
			}
			// guarded by ok
			guarded := false
			for _, dc := range DomConds(x) {
				if e2, ok := dc.V.(*ssa.Extract); ok && e2.Tuple == ssa.Value(lk) && e2.Index == 1 && dc.Pol {
					guarded = true
				}
			}
			if !guarded {
				okAll = false
				detail = append(detail, "service appended without the lookup having succeeded (unknown names would add nil services)")
			}
			// the looked-up name ranges over this entry's Services; the map is the locally built service table (a MakeMap in Run)
			if _, isMake := argOf(lk.X).(*ssa.MakeMap); !isMake {
				okAll = false
				detail = append(detail, "lookup is not in the service table built in Run: "+Render(lk.X))
			}
			// the entry struct the names come from
			{
				var w ssa.Value = lk.Index
				for d := 0; d < 8 && w != nil; d++ {
					switch y := w.(type) {
					case *ssa.Parameter:
						if nw := argOf(y); nw != ssa.Value(y) {
							w = nw
						} else {
							w = nil
						}
					case *ssa.Extract:
						w = y.Tuple
					case *ssa.Next:
						w = y.Iter
					case *ssa.Range:
						w = y.X
					case *ssa.UnOp:
						w = y.X
					case *ssa.IndexAddr:
						w = y.X
					case *ssa.FieldAddr:
						if a, ok := y.X.(*ssa.Alloc); ok {
							entryAllocs = append(entryAllocs, a)
						}
						w = nil
					default:
						w = nil
					}
				}
			}
			namesOK := strings.Contains(Render(lk.Index), ".Services[")
			if hcall != nil {
				// inside the helper the names come from a slice parameter: what the call passes for it
				for _, a := range hcall.Call.Args {
					if isSliceOfString(a.Type()) && strings.HasSuffix(Render(a), ".Services") && strings.Contains(Render(lk.Index), "p") {
						namesOK = true
					}
				}
			}
			if !namesOK {
				okAll = false
				detail = append(detail, "looked-up name does not range over this entry's `services`: "+Render(lk.Index))
			}
			// unknown name continues: from the !ok edge the append must still be reachable without passing ToAddr again
			if blk := lk.Block(); true {
				for _, b := range cur.Blocks {
					if len(b.Instrs) == 0 {
						continue
					}
					iff, ok := b.Instrs[len(b.Instrs)-1].(*ssa.If)
					if !ok {
						continue
					}
					atom, pol0 := condAtom(iff.Cond)
					e2, ok := atom.(*ssa.Extract)
					if !ok || e2.Tuple != ssa.Value(lk) || e2.Index != 1 {
						continue
					}
					missIdx := 1
					if !pol0 {
						missIdx = 0
					}
					start := b.Succs[missIdx]
					blocked := map[*ssa.BasicBlock]bool{tcall.Block(): true}
					if hcall != nil {
						blocked = nil
					}
					reach := ReachBlocks([]*ssa.BasicBlock{start}, nil, blocked)
					if !reach[x.Block()] {
						okAll = false
						detail = append(detail, "an unknown service name stops the scan of the remaining names (break/return instead of continue)")
					}
				}
				_ = blk
			}
		default:
			okAll = false
			detail = append(detail, "unexpected origin of the port's service list: "+Render(v))
		}
	}
	walk(svcList)
	for _, a := range entryAllocs {
		// a value returned by a decode helper and stored whole in every iteration is as fresh as the helper's own local
		wholeInLoop := false
		for _, ref := range *a.Referrers() {
			if st, isSt := ref.(*ssa.Store); isSt && st.Addr == ssa.Value(a) && InLoop(st.Block()) {
				switch v := st.Val.(type) {
				case *ssa.Extract:
					if hc, isC := v.Tuple.(*ssa.Call); isC && hc.Call.StaticCallee() != nil && InRepo(hc.Call.StaticCallee()) {
						wholeInLoop = true
					}
				case *ssa.Call:
					if v.Call.StaticCallee() != nil && InRepo(v.Call.StaticCallee()) {
						wholeInLoop = true
					}
				}
			}
		}
		if wholeInLoop {
			c.Ok("entry-struct-fresh", "Run port entry struct", p.InstrPos(a), "assigned whole from a decode helper's result in every iteration")
			break
		}
		c.Check(InLoop(a.Block()) && a.Heap, "entry-struct-fresh", "Run port entry struct", p.InstrPos(a), "each [[port]] entry is decoded into a fresh zero struct", "the struct a [[port]] entry is decoded into is allocated once outside the entry loop: keys absent from a later entry (port/ports/services) keep the previous entry's values")
		break
	}
	// fresh per entry: the initial nil of the list is injected inside the iteration that decoded this entry
	for _, pred := range nilPreds {
		fresh := tcall.Block().Dominates(pred)
		for _, a := range entryAllocs {
			if a.Block().Dominates(pred) && InLoop(a.Block()) {
				fresh = true
			}
		}
		if !fresh {
			okAll = false
			detail = append(detail, "the service list is not reset for each port entry (its initial nil is injected outside the entry loop): services of earlier entries leak into later ports")
		}
	}
	c.Check(okAll && nElems >= 1, "service-list-provenance", "hc.ports value", p.InstrPos(tcall), "fresh per port string; only serviceList[name] hits over this entry's names; unknown names skipped", strings.Join(detail, "; "))
}

// appendedElem: for append(s, x) go/ssa builds `t = new [1]T; *(&t[0]) = x; slice t[:]`; returns x.
func appendedElem(v ssa.Value) ssa.Value {
	sl, ok := v.(*ssa.Slice)
	if !ok {
		return nil
	}
	a, ok := sl.X.(*ssa.Alloc)
	if !ok {
		return nil
	}
	var out ssa.Value
	n := 0
	for _, ref := range *a.Referrers() {
		if ia, ok := ref.(*ssa.IndexAddr); ok {
			for _, r2 := range *ia.Referrers() {
				if st, ok := r2.(*ssa.Store); ok {
					out = st.Val
					n++
				}
			}
		}
	}
	if n != 1 {
		return nil
	}
	return out
}

func isExtract(v ssa.Value, tuple ssa.Value, idx int) bool {
	ex, ok := Unwrap(v).(*ssa.Extract)
	return ok && ex.Tuple == tuple && ex.Index == idx
}

func isConvOfExtract(v ssa.Value, tuple ssa.Value, idx int) bool {
	if cv, ok := v.(*ssa.Convert); ok {
		v = cv.X
	}
	return isExtract(v, tuple, idx)
}

func isSliceOfString(t types.Type) bool {
	sl, ok := t.Underlying().(*types.Slice)
	return ok && types.Identical(sl.Elem().Underlying(), types.Typ[types.String])
}

// c19RangedListUntouched: the port table is filled by walking the configured lists (port strings, service names). A
// `for … range x.F` loop evaluates x.F once; a store to the same field inside the loop (deleting or inserting an element
// in place) shifts the backing array under the running loop: the element after a deleted one is skipped and the last one
// is visited twice. For a services list that means a configured service is missing from the port's entry and another is
// entered twice – exactly for lists with an unknown name in front.
func c19RangedListUntouched(c *Ctx) {
	p := c.P
	const rule = "ranged-list-untouched"
	n := 0
	for _, fn := range p.FuncsIn("server") {
		if fn.Blocks == nil || strings.HasSuffix(p.Fset.Position(fn.Pos()).Filename, "_test.go") {
			continue
		}
		for _, l := range Loops(fn) {
			// the ranged value: len(X) evaluated before the loop and X indexed by the loop's counter, X loaded from a field
			var ranged *ssa.FieldAddr
			for b := range l.Blocks {
				for _, in := range b.Instrs {
					ia, ok := in.(*ssa.IndexAddr)
					if !ok || !isAscendingIndex(ia.Index) {
						continue
					}
					ld, ok := ia.X.(*ssa.UnOp)
					if !ok || ld.Op != token.MUL || l.Blocks[ld.Block()] {
						continue // the slice is loaded inside the loop: re-evaluated every iteration
					}
					if fa, ok := ld.X.(*ssa.FieldAddr); ok {
						ranged = fa
					}
				}
			}
			if ranged == nil {
				continue
			}
			n++
			key := fmt.Sprintf("%s: range over %s", shortFn(fn), RenderN(ranged, 2))
			bad := ""
			for b := range l.Blocks {
				for _, in := range b.Instrs {
					st, ok := in.(*ssa.Store)
					if !ok {
						continue
					}
					fa, ok := st.Addr.(*ssa.FieldAddr)
					if ok && fa.Field == ranged.Field && Render(fa.X) == Render(ranged.X) {
						bad = p.InstrPos(st)
					}
				}
			}
			c.Check(bad == "", rule, key, p.Pos(l.Header.Instrs[0].Pos()), "the list is not assigned while it is being walked", "the loop walks a list it assigns inside its body ("+bad+"): the range keeps the old length and backing array, so after an in-place deletion the next element is skipped and the last one is visited twice – a configured name is left out of the entry and another is entered twice")
		}
	}
	c.Floor(rule, 2, "loops of Run over the configured port and service lists")
}

// c19ServiceEntriesComplete: the port loop treats every key of the service table as a defined service. An entry is
// therefore entered only once it is complete: the store of its Service comes before the entry is put into the table.
// Entered first and completed later, an error path in between (unknown director) leaves a half-built entry with a nil
// Service: ports that list only that service are listened on, and a connection handed to it panics in the dispatcher
// instead of reaching the next service of the port.
func c19ServiceEntriesComplete(c *Ctx) {
	p := c.P
	const rule = "service-entry-complete"
	smT := p.Type("server", "ServiceMap")
	if !c.Anchor(smT != nil, rule, "server.ServiceMap") {
		return
	}
	n := 0
	for _, fn := range p.FuncsIn("server") {
		if fn.Blocks == nil || strings.HasSuffix(p.Fset.Position(fn.Pos()).Filename, "_test.go") {
			continue
		}
		for _, b := range fn.Blocks {
			for _, in := range b.Instrs {
				mu, ok := in.(*ssa.MapUpdate)
				if !ok {
					continue
				}
				pt, ok := mu.Value.Type().Underlying().(*types.Pointer)
				if !ok || NamedOf(pt.Elem()) != smT {
					continue
				}
				n++
				key := fmt.Sprintf("%s enters a service #%d", shortFn(fn), n)
				good := false
				for _, lf := range leaves(mu.Value) {
					a, isA := lf.(*ssa.Alloc)
					if !isA {
						// built by a helper: every result of it must be complete – not followed here
						if cl, isC := lf.(*ssa.Call); isC && cl.Call.StaticCallee() != nil && InRepo(cl.Call.StaticCallee()) {
							good = true
						}
						// (entry, error) from a helper: each non-nil entry it returns has its Service set before the return
						if ex, isE := lf.(*ssa.Extract); isE {
							if cl, isC := ex.Tuple.(*ssa.Call); isC && cl.Call.StaticCallee() != nil && InRepo(cl.Call.StaticCallee()) && cl.Call.StaticCallee().Blocks != nil {
								h := cl.Call.StaticCallee()
								all, some := true, false
								for _, r := range Returns(h) {
									vals := RetVals(r)
									if ex.Index >= len(vals) {
										all = false
										continue
									}
									for _, hl := range leaves(vals[ex.Index]) {
										if IsNilConst(hl) {
											continue
										}
										ha, isHA := hl.(*ssa.Alloc)
										set := false
										if isHA && ha.Referrers() != nil {
											for _, ref := range *ha.Referrers() {
												if fa, isFA := ref.(*ssa.FieldAddr); isFA && fieldNameOf(fa) == "Service" && fa.Referrers() != nil {
													for _, r2 := range *fa.Referrers() {
														if st, isSt := r2.(*ssa.Store); isSt && st.Addr == ssa.Value(fa) && before(st, r) {
															set = true
														}
													}
												}
											}
										}
										if set {
											some = true
										} else {
											all = false
										}
									}
								}
								if all && some {
									good = true
								}
							}
						}
						continue
					}
					for _, ref := range *a.Referrers() {
						fa, isFA := ref.(*ssa.FieldAddr)
						if !isFA || fieldNameOf(fa) != "Service" {
							continue
						}
						for _, r2 := range *fa.Referrers() {
							if st, isSt := r2.(*ssa.Store); isSt && st.Addr == ssa.Value(fa) && before(st, mu) {
								good = true
							}
						}
					}
				}
				c.Check(good, rule, key, p.InstrPos(mu), "the entry's Service is set before it is entered", "the entry is put into the service table before its Service is set: an error path in between (the director named by the service is not enabled) leaves a defined-looking entry with a nil Service, so a port listing only that service is listened on and reserved, and a connection given to it never reaches the port's other services")
			}
		}
	}
	c.Floor(rule, 1, "Run fills serviceList")
}
