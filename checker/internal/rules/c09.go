package rules

import (
	"fmt"
	"go/token"
	"go/types"
	"sort"
	"strings"

	"golang.org/x/tools/go/ssa"

	. "htcheck/internal/core"
	"htcheck/internal/zone"
)

func init() { Registry["C09"] = c09 }

// chanKey canonicalises a channel value: a struct field ("field:T.f"), or a local channel of function F
// ("local:F:<render>"), resolving captured variables to the binding in the enclosing function.
var (
	curProg  *Program // the program under analysis (set by c09), for resolving parameters through call sites
	libDepth int
)

// libraryOwnedChan: v is (a local copy of) a receive-only channel that a function outside the repository returned.
func libraryOwnedChan(v ssa.Value) bool {
	for i := 0; i < 6; i++ {
		v = Deref(v)
		switch x := v.(type) {
		case *ssa.UnOp:
			if x.Op != token.MUL {
				return false
			}
			switch a := x.X.(type) {
			case *ssa.FreeVar:
				b := freeVarBinding(a)
				if b == nil {
					return false
				}
				if al, ok := b.(*ssa.Alloc); ok {
					sv := SingleStore(al)
					if sv == nil {
						return false
					}
					v = sv
					continue
				}
				v = b
				continue
			case *ssa.Alloc:
				sv := SingleStore(a)
				if sv == nil {
					return false
				}
				v = sv
				continue
			}
			return false
		case *ssa.FreeVar:
			b := freeVarBinding(x)
			if b == nil {
				return false
			}
			v = b
			continue
		case *ssa.ChangeType:
			v = x.X
			continue
		case *ssa.Parameter:
			// a channel handed to the function that ranges over it (go s.serveSession(channel, requests)): what every call site passes
			if curProg == nil || libDepth > 2 {
				return false
			}
			idx := paramIdx(x)
			n := 0
			for _, g := range curProg.Funcs() {
				for _, cl := range Calls(g) {
					if cl.Common().StaticCallee() != x.Parent() || cl.Common().IsInvoke() {
						continue
					}
					n++
					libDepth++
					ok := idx >= 0 && idx < len(cl.Common().Args) && libraryOwnedChan(cl.Common().Args[idx])
					libDepth--
					if !ok {
						return false
					}
				}
			}
			return n > 0
		case *ssa.Extract:
			call, ok := x.Tuple.(*ssa.Call)
			if !ok {
				return false
			}
			return libraryCallResult(call, x.Type())
		case *ssa.Call:
			return libraryCallResult(x, x.Type())
		}
		return false
	}
	return false
}

func libraryCallResult(call *ssa.Call, t types.Type) bool {
	ch, ok := t.Underlying().(*types.Chan)
	if !ok || ch.Dir() != types.RecvOnly {
		return false
	}
	cc := call.Common()
	if cc.IsInvoke() {
		// an interface declared outside the repository
		n := NamedOf(cc.Value.Type())
		return n != nil && n.Obj().Pkg() != nil && !strings.HasPrefix(n.Obj().Pkg().Path(), "github.com/honeytrap/honeytrap")
	}
	f := cc.StaticCallee()
	return f != nil && !InRepo(f)
}

func chanKey(v ssa.Value) string {
	v = Deref(v)
	switch x := v.(type) {
	case *ssa.UnOp:
		if x.Op == token.MUL {
			if fa, ok := x.X.(*ssa.FieldAddr); ok {
				if n := NamedOf(fa.X.Type()); n != nil {
					return "field:" + TypeKey(n) + "." + fieldNameOf(fa)
				}
			}
			if fv, ok := x.X.(*ssa.FreeVar); ok {
				if b := freeVarBinding(fv); b != nil {
					if a, ok := b.(*ssa.Alloc); ok {
						if sv := SingleStore(a); sv != nil {
							return chanKey(sv)
						}
						return "local:" + shortFn(a.Parent()) + ":" + a.Comment
					}
					return chanKey(b)
				}
			}
			if a, ok := x.X.(*ssa.Alloc); ok {
				return "local:" + shortFn(a.Parent()) + ":" + a.Comment
			}
		}
	case *ssa.FreeVar:
		if b := freeVarBinding(x); b != nil {
			return chanKey(b)
		}
	case *ssa.MakeChan:
		return "local:" + shortFn(x.Parent()) + ":" + fmt.Sprintf("makechan@%d", x.Pos())
	case *ssa.ChangeType:
		return chanKey(x.X)
	case *ssa.Phi:
		var ks []string
		for _, e := range x.Edges {
			ks = append(ks, chanKey(e))
		}
		sort.Strings(ks)
		return strings.Join(uniq(ks), "|")
	case *ssa.Parameter:
		return "param:" + shortFn(x.Parent()) + ":" + x.Name()
	}
	return "?" + RenderN(v, 3)
}

func c09(c *Ctx) {
	curProg = c.P
	p := c.P
	c.Explanation = "Static checks of the release mechanisms (bounded time itself is a run-time quantity and is NOT decided): (1) every goroutine started in the call-graph reach of a listed service's Handle has a reachable return; when its only ways out are the closed/“done” arm of a receive, " +
		"range or select on a channel, a close() of that same channel object exists in the handler's own code (deferred or after the serve loop) and the channel is per-connection; (2) every in-repo net.Conn implementation's Read can return a non-nil error (own error value or delegation to another Read) – " +
		"a Read that can only return (n, nil) makes every read-until-error handler spin after the data is consumed; (3) every listener opened in handler-reachable code (net.Listen*, tls.NewListener) is stored where a Close of the owner reaches it and is closed after the accept; " +
		"(4) the dispatcher hands services the idle-timeout wrapper whose Read/Write re-arm the deadline (shared with C08); (5) handlers do not select their datagram path by a connection type the dispatcher never passes (dead branch => io.Copy over a connection that never errors)."
	c.Assume("operating-system level release (descriptor counts) and timing are not observable statically")
	c.Assume("receive-only channels handed out by a library (x/crypto/ssh's channel and request queues) are closed by the library when their connection ends, and are filled by the connection's reader goroutine through a bounded buffer")
	svcs := Services(c)
	g := p.VTA()
	listed := map[string]bool{}
	for _, n := range c01Services {
		listed[n] = true
	}
	// ---- (1) goroutine exits
	type rinfo struct {
		r    goRoot
		svcs []string
		hfns map[*ssa.Function]bool
	}
	roots := map[*ssa.Function]*rinfo{}
	closes := map[string][]ssa.Instruction{} // chanKey -> close sites
	for _, sv := range svcs {
		in := false
		for _, n := range sv.Names {
			if listed[n] {
				in = true
			}
		}
		if !in {
			continue
		}
		reach, rs := handleReach(g, sv.Handle)
		for fn := range reach {
			if !strings.HasPrefix(RelPkg(PkgOf(fn)), "services") {
				continue
			}
			for _, call := range Calls(fn) {
				if b, ok := call.Common().Value.(*ssa.Builtin); ok && b.Name() == "close" {
					k := chanKey(call.Common().Args[0])
					closes[k] = append(closes[k], call)
				}
			}
		}
		for _, r := range rs {
			ri := roots[r.fn]
			if ri == nil {
				ri = &rinfo{r: r, hfns: reach}
				roots[r.fn] = ri
			}
			ri.svcs = append(ri.svcs, strings.Join(sv.Names, "/"))
		}
	}
	var rfns []*ssa.Function
	for fn := range roots {
		rfns = append(rfns, fn)
	}
	sort.Slice(rfns, func(i, j int) bool { return rfns[i].String() < rfns[j].String() })
	nroots := 0
	for _, fn := range rfns {
		ri := roots[fn]
		key := shortFn(fn)
		if !InRepo(fn) || fn.Blocks == nil {
			c.Observe("goroutine-ends", key, p.InstrPos(ri.r.site), "library goroutine (ends with its channel/connection)")
			continue
		}
		nroots++
		rets := Returns(fn)
		// reachable returns
		reachable := ReachBlocks([]*ssa.BasicBlock{fn.Blocks[0]}, nil, nil)
		var live []*ssa.Return
		for _, r := range rets {
			if reachable[r.Block()] {
				live = append(live, r)
			}
		}
		if len(live) == 0 && hasRecover(fn) && fn.Recover != nil {
			// ends by a recovered panic (vnc's serve loop leaves through failf -> panic -> deferred recover)
			panics := false
			for f := range unprotectedReach(g, fn) {
				for _, b := range f.Blocks {
					for _, in := range b.Instrs {
						if pn, ok := in.(*ssa.Panic); ok && !strings.Contains(Render(pn.X), "blocking select") {
							panics = true
						}
					}
				}
			}
			if panics {
				c.Ok("goroutine-ends", key, p.InstrPos(ri.r.site), "leaves its loop through a panic on read errors that its own deferred recover turns into a return")
				continue
			}
		}
		if len(live) == 0 {
			c.Violate("goroutine-ends", key, p.InstrPos(ri.r.site), "this goroutine, started for every connection of "+strings.Join(uniqS(ri.svcs), ",")+", has no reachable return: one goroutine (and everything it references) stays behind per past connection")
			continue
		}
		// exit channels: for each live return, the channel conditions that guard it
		var exitChans []ssa.Value
		ioExit := false
		for _, r := range live {
			chans := exitChannelsOf(fn, r)
			if len(chans) == 0 {
				ioExit = true // returns on some non-channel condition (I/O error, counter ...)
			}
			exitChans = append(exitChans, chans...)
		}
		if ioExit && len(exitChans) == 0 {
			c.Ok("goroutine-ends", key, p.InstrPos(ri.r.site), "returns on an I/O result or unconditionally")
			continue
		}
		okAny := ioExit
		var missing []string
		for _, ch := range exitChans {
			// a goroutine started as `go s.pump(conn, recv)`: the channel is the argument given at the go statement
			if pr, isP := Deref(ch).(*ssa.Parameter); isP && pr.Parent() == fn {
				if g, isCall := ri.r.site.(ssa.CallInstruction); isCall && !g.Common().IsInvoke() {
					if idx := paramIdx(pr); idx >= 0 && idx < len(g.Common().Args) {
						ch = g.Common().Args[idx]
					}
				}
			}
			if libraryOwnedChan(ch) {
				// a receive-only channel handed out by a library call (x/crypto/ssh's request and channel queues):
				// only the library can close it, and it does when the connection it belongs to ends
				okAny = true
				continue
			}
			k := chanKey(ch)
			if strings.HasPrefix(k, "field:") {
				// a field of a Servicer type would be shared between connections (C03); per-connection object fields are fine
				if idx := strings.LastIndex(k, "."); idx > 0 {
					tn := k[len("field:"):idx]
					for _, sv := range svcs {
						if TypeKey(sv.Type) == tn {
							missing = append(missing, k+" (a channel of the shared service object: it is never closed per connection)")
						}
					}
				}
			}
			if len(closes[k]) > 0 {
				okAny = true
			} else {
				missing = append(missing, k)
			}
		}
		if okAny && (ioExit || len(missing) == 0) {
			c.Ok("goroutine-ends", key, p.InstrPos(ri.r.site), fmt.Sprintf("ends when its channel is closed; close() sites exist in the handler (%d exit channel(s))", len(exitChans)))
		} else if okAny {
			c.Ok("goroutine-ends", key, p.InstrPos(ri.r.site), "at least one of its exit channels is closed by the handler")
		} else {
			c.Violate("goroutine-ends", key, p.InstrPos(ri.r.site), "the only ways out of this per-connection goroutine are receive/range/select arms on channel(s) ["+strings.Join(uniq(missing), ", ")+"] that no handler code ever closes: the goroutine outlives its connection forever")
		}
	}
	c.Check(nroots >= 5, "goroutine-ends", "goroutine roots found", "-", fmt.Sprint(nroots), fmt.Sprintf("expected at least 5 in-repo goroutine roots under the listed handlers, found %d", nroots))

	// ---- (1b) read loops end on a read error
	nrl := 0
	for _, sv := range svcs {
		in := false
		for _, n := range sv.Names {
			if listed[n] {
				in = true
			}
		}
		conn := handleConn(sv.Handle)
		if !in || conn == nil {
			continue
		}
		type fnSeed struct {
			fn    *ssa.Function
			seeds []ssa.Value
		}
		work := []fnSeed{{sv.Handle, []ssa.Value{conn}}}
		done := map[*ssa.Function]bool{}
		for len(work) > 0 {
			w := work[0]
			work = work[1:]
			if done[w.fn] {
				continue
			}
			done[w.fn] = true
			t := connTaint(w.fn, w.seeds)
			for _, call := range Calls(w.fn) {
				cv, ok := call.(*ssa.Call)
				if !ok {
					continue
				}
				cc := cv.Common()
				f := cc.StaticCallee()
				derived := cc.IsInvoke() && t[cc.Value]
				for _, a := range cc.Args {
					if t[a] {
						derived = true
					}
				}
				if !derived {
					continue
				}
				if f != nil && InRepo(f) && f.Blocks != nil && strings.HasPrefix(RelPkg(PkgOf(f)), "services") {
					var seeds []ssa.Value
					for i, a := range cc.Args {
						if t[a] && i < len(f.Params) {
							seeds = append(seeds, f.Params[i])
						}
					}
					work = append(work, fnSeed{f, seeds})
				}
				// a read: returns (..., error)
				tup, isTup := cv.Type().(*types.Tuple)
				if !isTup || tup.Len() < 2 || !IsErrorType(tup.At(tup.Len()-1).Type()) {
					continue
				}
				mname := ""
				if cc.IsInvoke() {
					mname = cc.Method.Name()
				} else if f != nil {
					mname = f.Name()
				}
				if !(strings.HasPrefix(mname, "Read") || strings.HasPrefix(mname, "read") || strings.HasPrefix(mname, "parse") || strings.HasPrefix(mname, "Parse")) {
					continue
				}
				if !InLoop(cv.Block()) {
					continue
				}
				nrl++
				key := strings.Join(sv.Names, "/") + ": " + mname + " in " + shortFn(w.fn)
				// a Read that is handed an empty buffer returns (0, nil) at once, whatever the state of the connection: a loop
				// around it neither makes progress nor ever sees the error that would end it
				if mname == "Read" {
					var buf ssa.Value
					if cc.IsInvoke() && len(cc.Args) == 1 {
						buf = cc.Args[0]
					} else if !cc.IsInvoke() && len(cc.Args) == 2 {
						buf = cc.Args[1]
					}
					if buf != nil && isByteSlice(buf.Type()) {
						pr := zone.New(w.fn)
						if o, ok := pr.NonEmptyObligation(buf); ok {
							good, why := pr.Prove(o, cv)
							if !good && strings.HasPrefix(RelPkg(PkgOf(w.fn)), "services/ja3/crypto/tls") {
								// the forked standard-library TLS record layer: block.readFromUntil reserves n bytes and loops only while
								// len < n <= cap, an invariant across reserve() and the loop that the prover does not follow
								c.Except("read-buffer-not-empty", key, p.InstrPos(cv), "forked crypto/tls record reader (unchanged from the Go standard library): reserve(n) makes cap >= n and the loop runs only while len < n, so the slice data[len:cap] is never empty")
								good = true
							} else {
								c.Check(good, "read-buffer-not-empty", key, p.InstrPos(cv), "the buffer handed to Read has room for at least one byte", "the buffer handed to this Read in a loop can be empty ("+why+"): Read then returns (0, nil) immediately and for ever – the loop spins at full speed, makes no progress and never sees the error of a closed or timed-out connection")
							}
						}
					}
				}
				var errV ssa.Value
				for _, ref := range *cv.Referrers() {
					if ex, ok := ref.(*ssa.Extract); ok && ex.Index == tup.Len()-1 {
						errV = ex
					}
				}
				// the loop this read sits in: innermost natural loop header = nearest dominator h with a back edge from a block reachable from the read
				// error edge(s): If on errV != nil / errV == X ...; from the "error is set" side the read must not be reachable again
				if errV == nil {
					c.Violate("read-loop-ends-on-error", key, p.InstrPos(cv), "the error of a read on the connection inside a loop is discarded: when the peer is gone (or the idle timeout fires) the loop keeps going")
					continue
				}
				bad := ""
				tested := false
				for _, b := range w.fn.Blocks {
					if len(b.Instrs) == 0 {
						continue
					}
					iff, ok := b.Instrs[len(b.Instrs)-1].(*ssa.If)
					if !ok {
						continue
					}
					atom, pol0 := condAtom(iff.Cond)
					bo, ok := atom.(*ssa.BinOp)
					if !ok || bo.X != errV || !IsNilConst(bo.Y) {
						continue
					}
					tested = true
					errIdx := 0 // successor on which err != nil
					if (bo.Op == token.NEQ) != pol0 {
						errIdx = 1
					}
					// from the error successor, can control come back to the read without leaving the function?
					r := ReachBlocks([]*ssa.BasicBlock{b.Succs[errIdx]}, nil, nil)
					if r[cv.Block()] {
						// allowed only if every such path re-tests... keep it simple: some path returns to the read => the error does not end the loop
						// (paths that only pass through a successful-read continuation are impossible here: we start on the error side)
						bad = p.InstrPos(iff)
					}
				}
				if !tested {
					// errors compared with specific values only (err == io.EOF) and otherwise ignored
					c.Violate("read-loop-ends-on-error", key, p.InstrPos(cv), "the error of this read is never compared with nil inside the loop: errors other than the ones named keep the loop running")
					continue
				}
				c.Check(bad == "", "read-loop-ends-on-error", key, p.InstrPos(cv), "every read error leaves the loop", "after this read reported an error (branch at "+bad+") control can reach the read again: errors that persist (a closed or timed-out connection, a sticky scanner error) make the handler loop forever instead of returning")
			}
		}
	}
	c.Check(nrl >= 5, "read-loop-ends-on-error", "read loops found", "-", fmt.Sprint(nrl), fmt.Sprintf("expected at least 5 read loops over handler connections, found %d", nrl))

	// ---- (2) Reader contract of in-repo net.Conn implementations
	var connIface *types.Interface
	if pk := p.ByPath["net"]; pk != nil && pk.Types != nil {
		if o := pk.Types.Scope().Lookup("Conn"); o != nil {
			connIface, _ = o.Type().Underlying().(*types.Interface)
		}
	}
	if c.Anchor(connIface != nil, "reader-contract", "interface net.Conn") {
		n := 0
		for _, t := range p.NamedTypes() {
			if _, isI := t.Underlying().(*types.Interface); isI || !Implements(t, connIface) {
				continue
			}
			rp := RelPkg(t.Obj().Pkg().Path())
			if strings.HasPrefix(rp, "services/ja3") || strings.Contains(rp, "vendor") {
				continue
			}
			rd := p.Method(rp, t.Obj().Name(), "Read")
			if rd == nil || rd.Blocks == nil || rd.Synthetic != "" {
				continue // Read promoted from an embedded net.Conn: delegation
			}
			if n2 := NamedOf(rd.Signature.Recv().Type()); n2 != t {
				continue
			}
			n++
			canFail := false
			for _, r := range Returns(rd) {
				rv := RetVals(r)
				ev := rv[len(rv)-1]
				for _, lf := range leaves(ev) {
					if !IsNilConst(lf) {
						canFail = true
					}
				}
			}
			c.Check(canFail, "reader-contract", TypeKey(t)+".Read", p.Pos(rd.Pos()), "can report end-of-stream / an error", "this net.Conn's Read can only ever return a nil error: once its data is consumed it returns (0, nil) forever, so every handler that reads until an error (io.Copy, bufio readers, `for { Read }` loops) spins at full speed and never releases the connection")
		}
		c.Check(n >= 3, "reader-contract", "net.Conn implementations with their own Read", "-", fmt.Sprint(n), fmt.Sprintf("expected at least 3 in-repo net.Conn implementations with their own Read, found %d", n))
	}

	// ---- (3) listeners opened by handlers are closed
	nl := 0
	for _, sv := range svcs {
		in := false
		for _, n := range sv.Names {
			if listed[n] {
				in = true
			}
		}
		if !in {
			continue
		}
		reach, _ := handleReach(g, sv.Handle)
		var fns []*ssa.Function
		for fn := range reach {
			if strings.HasPrefix(RelPkg(PkgOf(fn)), "services") && !strings.HasPrefix(RelPkg(PkgOf(fn)), "services/ja3") {
				fns = append(fns, fn)
			}
		}
		sort.Slice(fns, func(i, j int) bool { return fns[i].String() < fns[j].String() })
		for _, fn := range fns {
			for _, call := range Calls(fn) {
				f := call.Common().StaticCallee()
				helperDeadline := false
				if !isNetListen(f) {
					// a helper of the package that opens the listener and returns it: judged here, at its caller
					if f == nil || !InRepo(f) || f.Blocks == nil || PkgOf(f) != PkgOf(fn) {
						continue
					}
					lc := returnedListen(f)
					if lc == nil {
						continue
					}
					helperDeadline = listenSetsDeadline(f, lc)
				} else if returnedListen(fn) == call && hasCallerIn(p, fn, fns) {
					nl++
					c.Ok("listener-closed", strings.Join(sv.Names, "/")+": "+FuncShort(f)+" in "+shortFn(fn), p.InstrPos(call), "the listener is returned to the caller and judged there")
					continue
				}
				nl++
				key := strings.Join(sv.Names, "/") + ": " + FuncShort(f) + " in " + shortFn(fn)
				// the listener value (through tls.NewListener, phis, interface conversion, captured variable)
				lv := map[ssa.Value]bool{}
				var seeds []ssa.Value
				for _, ref := range *call.Value().Referrers() {
					if ex, ok := ref.(*ssa.Extract); ok && ex.Index == 0 {
						seeds = append(seeds, ex)
					}
				}
				lv = Taint(fn, seeds, TaintOpts{ThroughFields: true, CallResult: func(cc *ssa.Call, d []int) bool {
					if f2 := cc.Call.StaticCallee(); f2 != nil && f2.Name() == "NewListener" {
						return true
					}
					return false
				}})
				// a listener opened for one connection must not wait for its peer for ever: SetDeadline on it in the opening
				// function, or every Accept on it selected against a timer/ctx (not the case anywhere today)
				hasDeadline := helperDeadline
				for _, c2 := range Calls(fn) {
					cc := c2.Common()
					name := ""
					var recv ssa.Value
					if cc.IsInvoke() {
						name, recv = cc.Method.Name(), cc.Value
					} else if f2 := cc.StaticCallee(); f2 != nil && f2.Signature.Recv() != nil && len(cc.Args) > 0 {
						name, recv = f2.Name(), cc.Args[0]
					}
					if name == "SetDeadline" && recv != nil && lv[recv] {
						// `if l, ok := listener.(interface{ SetDeadline(..) }); ok` sets it only when the listener at hand offers
						// the method: one that was wrapped (tls.NewListener) does not, and then nothing bounds the accept
						if ta := commaOkAssertOf(recv); ta != nil && !rawListener(ta.X, seeds, 0) {
							continue
						}
						hasDeadline = true
					}
				}
				c.Check(hasDeadline, "listener-accept-bounded", key, p.InstrPos(call), "the listener is given a deadline before anyone accepts on it", "a listening socket opened on behalf of the connection accepts without any deadline: when the peer never connects to it, the accept goroutine and every command that waits for the data connection stay parked for ever – also after the client has gone, so the handler never returns and the socket is never released")
				closed := false
				stored := false
				fnsToScan := append([]*ssa.Function{fn}, Anon(fn)...)
				for _, f2 := range fnsToScan {
					t2 := lv
					if f2 != fn {
						// closure: captured listener variables
						var sd []ssa.Value
						for _, mc := range MakeClosures(f2.Parent()) {
							if mc.Fn == f2 {
								sd = append(sd, closureFreeSeeds(mc, lv)...)
							}
						}
						t2 = Taint(f2, sd, TaintOpts{ThroughFields: true})
					}
					for _, c2 := range Calls(f2) {
						cc := c2.Common()
						if cc.IsInvoke() && cc.Method.Name() == "Close" && t2[cc.Value] {
							closed = true
						}
						// the listener handed to a helper of the package (go socket.acceptOne(listener)) that closes its parameter
						if hf := cc.StaticCallee(); hf != nil && InRepo(hf) && hf.Blocks != nil && PkgOf(hf) == PkgOf(fn) {
							for ai, a := range cc.Args {
								if !t2[a] || ai >= len(hf.Params) {
									continue
								}
								t3 := Taint(hf, []ssa.Value{hf.Params[ai]}, TaintOpts{ThroughFields: true})
								for _, c3 := range Calls(hf) {
									c3c := c3.Common()
									if c3c.IsInvoke() && c3c.Method.Name() == "Close" && t3[c3c.Value] {
										closed = true
									}
								}
							}
						}
						if f3 := cc.StaticCallee(); f3 != nil && f3.Name() == "Close" && len(cc.Args) > 0 && t2[cc.Args[0]] {
							closed = true
						}
					}
					for _, b := range f2.Blocks {
						for _, in := range b.Instrs {
							if st, ok := in.(*ssa.Store); ok && t2[st.Val] {
								if _, ok := st.Addr.(*ssa.FieldAddr); ok {
									stored = true
								}
							}
						}
					}
				}
				c.Check(closed, "listener-closed", key, p.InstrPos(call), "the listener is closed once the data connection was accepted (and via the owner's Close)", "a listening socket opened on behalf of the connection is never closed (stored for Close: "+fmt.Sprint(stored)+"): every passive-mode request leaves a listening descriptor behind, and one that is never connected to also leaves a goroutine blocked in Accept")
			}
		}
	}
	c.Check(nl >= 1, "listener-closed", "listeners opened by handlers", "-", fmt.Sprint(nl), "no listener creation found in handler-reachable code (ftp passive mode expected)")

	// ---- (4) idle deadline (shared with C08)
	c08TimeoutConn(c)
	if find := p.Method("server", "Honeytrap", "findService"); find != nil {
		c08Dispatcher(c, find)
		c09PeekUnderDeadline(c, find)
	}

	// ---- (5) dead datagram branches in the listed services
	valid := handlerConnTypes(p)
	var vt []string
	for t := range valid {
		vt = append(vt, t)
	}
	sort.Strings(vt)
	for _, sv := range svcs {
		in := false
		for _, n := range sv.Names {
			if listed[n] {
				in = true
			}
		}
		conn := handleConn(sv.Handle)
		if !in || conn == nil {
			continue
		}
		for _, b := range sv.Handle.Blocks {
			for _, ins := range b.Instrs {
				ta, ok := ins.(*ssa.TypeAssert)
				if !ok || Deref(ta.X) != ssa.Value(conn) {
					continue
				}
				if _, isI := ta.AssertedType.Underlying().(*types.Interface); isI {
					continue
				}
				tn := types.TypeString(ta.AssertedType, nil)
				key := strings.Join(sv.Names, "/") + ": conn.(" + typeShortT(ta.AssertedType) + ")"
				c.Check(valid[tn], "no-dead-datagram-branch", key, p.InstrPos(ta), "a type the dispatcher passes", "the handler picks its datagram/stream behaviour by asserting the connection to "+typeShortT(ta.AssertedType)+", which the dispatcher never passes (it passes "+strings.Join(vt, ", ")+"): a datagram is then served by the stream path (e.g. io.Copy(conn, conn)), which only ends when Read fails")
			}
		}
	}
	c09LockRelease(c)
	c09DecodeLoops(c)
	c09OwnerCloseReleasesAll(c)
	c09DataSocketReplaced(c)
	c09OwnerCloseDeferred(c)
	c09LibraryQueuesDrained(c, svcs, listed)
	c09DatagramEndReported(c)
	c09HelperWaitsOnExit(c)
	c09ResultChannelNotAbandoned(c, "services")
	loopLeavesOnReadError(c, "drain-loop-leaves-on-error", "the handler, its goroutine and the connection's descriptor stay for good", "services")
}

// exitChannelsOf: channels whose closed/receive arm guards the return r (range over chan exhausted, v,ok := <-ch with !ok,
// select case on ch).
func exitChannelsOf(fn *ssa.Function, r *ssa.Return) []ssa.Value {
	var out []ssa.Value
	for _, dc := range DomConds(r) {
		switch v := dc.V.(type) {
		case *ssa.Extract:
			switch t := v.Tuple.(type) {
			case *ssa.Next:
				// range over channel: ok == false
				if rg, ok := t.Iter.(*ssa.Range); ok && v.Index == 0 && !dc.Pol {
					if _, isChan := rg.X.Type().Underlying().(*types.Chan); isChan {
						out = append(out, rg.X)
					}
				}
			case *ssa.UnOp:
				if t.Op == token.ARROW && t.CommaOk && v.Index == 1 && !dc.Pol {
					out = append(out, t.X)
				}
			case *ssa.Select:
				if v.Index == 1 && !dc.Pol { // recvOk false
					for _, st := range t.States {
						if st.Dir == types.RecvOnly {
							out = append(out, st.Chan)
						}
					}
				}
			}
		case *ssa.BinOp:
			// select index == k
			if ex, ok := v.X.(*ssa.Extract); ok {
				if sel, ok := ex.Tuple.(*ssa.Select); ok && ex.Index == 0 && v.Op == token.EQL && dc.Pol {
					if k, isC := ConstInt(v.Y); isC && int(k) < len(sel.States) && sel.States[k].Dir == types.RecvOnly {
						out = append(out, sel.States[k].Chan)
					}
				}
			}
		}
	}
	// go/ssa lowers `for x := range ch` to: t = <-ch (commaOk) in the loop header
	return out
}

// commaOkAssertOf: v is (an extract of) a comma-ok type assertion.
func commaOkAssertOf(v ssa.Value) *ssa.TypeAssert {
	if ex, ok := v.(*ssa.Extract); ok {
		if ta, ok := ex.Tuple.(*ssa.TypeAssert); ok && ta.CommaOk {
			return ta
		}
	}
	return nil
}

// rawListener: v is one of the seeds (what net.Listen returned) on every path, seen through interface conversions only.
func rawListener(v ssa.Value, seeds []ssa.Value, d int) bool {
	if d > 6 {
		return false
	}
	for _, s := range seeds {
		if s == v {
			return true
		}
	}
	switch x := v.(type) {
	case *ssa.MakeInterface:
		return rawListener(x.X, seeds, d+1)
	case *ssa.ChangeInterface:
		return rawListener(x.X, seeds, d+1)
	case *ssa.ChangeType:
		return rawListener(x.X, seeds, d+1)
	case *ssa.Phi:
		for _, e := range x.Edges {
			if !rawListener(e, seeds, d+1) {
				return false
			}
		}
		return len(x.Edges) > 0
	case *ssa.UnOp:
		// a load of the listener variable: what has been stored into it on the way here
		a, ok := x.X.(*ssa.Alloc)
		if !ok || x.Op != token.MUL || a.Referrers() == nil {
			return false
		}
		some := false
		for _, r := range *a.Referrers() {
			st, ok := r.(*ssa.Store)
			if !ok || st.Addr != ssa.Value(a) {
				continue
			}
			if !InstrReachFrom(x.Parent(), st, nil, func(ssa.Instruction) bool { return false })(x) {
				continue // stored only later (the TLS wrapper)
			}
			some = true
			if !rawListener(st.Val, seeds, d+1) {
				return false
			}
		}
		return some
	}
	return false
}

func isNetListen(f *ssa.Function) bool {
	return f != nil && PkgOf(f) == "net" && (f.Name() == "Listen" || f.Name() == "ListenTCP" || f.Name() == "ListenUDP" || f.Name() == "ListenPacket" || f.Name() == "ListenUnix")
}

// returnedListen: the net.Listen* call of h whose listener h returns as its first result (on some return).
func returnedListen(h *ssa.Function) ssa.CallInstruction {
	for _, r := range Returns(h) {
		vals := RetVals(r)
		if len(vals) == 0 {
			continue
		}
		for _, lf := range leaves(vals[0]) {
			if ex, ok := Unwrap(lf).(*ssa.Extract); ok && ex.Index == 0 {
				if call, ok := ex.Tuple.(*ssa.Call); ok && isNetListen(call.Call.StaticCallee()) {
					return call
				}
			}
		}
	}
	return nil
}

// listenSetsDeadline: h calls SetDeadline on the very listener lc returned, unconditionally after the error test.
func listenSetsDeadline(h *ssa.Function, lc ssa.CallInstruction) bool {
	for _, c2 := range Calls(h) {
		cc := c2.Common()
		f2 := cc.StaticCallee()
		if f2 == nil || f2.Name() != "SetDeadline" || len(cc.Args) == 0 {
			continue
		}
		if ex, ok := Unwrap(cc.Args[0]).(*ssa.Extract); ok && ex.Index == 0 && ex.Tuple == lc.Value() {
			return true
		}
	}
	return false
}

func hasCallerIn(p *Program, f *ssa.Function, fns []*ssa.Function) bool {
	for _, g := range fns {
		for _, call := range Calls(g) {
			if call.Common().StaticCallee() == f {
				return true
			}
		}
	}
	return false
}
