package rules

import (
	"fmt"
	"go/token"
	"go/types"

	. "htcheck/internal/core"

	"golang.org/x/tools/go/ssa"
)

// c07NewFileAfterSplit (rule line-boundary-new-file): where the batch is split, rotateFile.Write hands the file the
// lines before the split point WITHOUT their final newline and skips that newline, because the next bytes go to a new
// file. That is sound only while a successful rotation lies between such a prefix write and the next write: a path on
// which the rotation failed (or was skipped) and writing goes on puts the next line directly behind the unterminated
// one – two events in one line that is not parseable JSON.
func c07NewFileAfterSplit(c *Ctx) {
	const rule = "line-boundary-new-file"
	c.Explanation += " After a prefix was written without its final newline no further write is reachable except through a successful rotation."
	p := c.P
	w := p.Method(fileRel, "rotateFile", "Write")
	rot := p.Method(fileRel, "rotateFile", "rotate")
	if !c.Anchor(w != nil && rot != nil, rule, "(*file.rotateFile).Write and rotate") {
		return
	}
	callsRotate := func(f *ssa.Function) *ssa.Call {
		for _, call := range Calls(f) {
			if cv, ok := call.(*ssa.Call); ok && cv.Call.StaticCallee() == rot {
				return cv
			}
		}
		return nil
	}
	isErr := func(t types.Type) bool { return t.String() == "error" }
	// errSuccessIdx: for an If on `e ==/!= nil`, the successor index on which e is nil
	errSuccessIdx := func(iff *ssa.If, e ssa.Value) int {
		atom, pol0 := condAtom(iff.Cond)
		bo, ok := atom.(*ssa.BinOp)
		if !ok || !IsNilConst(bo.Y) || bo.X != e || (bo.Op != token.EQL && bo.Op != token.NEQ) {
			return -1
		}
		if (bo.Op == token.EQL) == pol0 {
			return 0
		}
		return 1
	}
	// helperSuccess: a bool-returning helper around rotate: the constant it returns when rotate succeeded
	helperSuccess := func(h *ssa.Function) (val, ok bool) {
		rc := callsRotate(h)
		if rc == nil {
			return false, false
		}
		var sv, fv *bool
		for _, r := range Returns(h) {
			vals := RetVals(r)
			if len(vals) != 1 {
				return false, false
			}
			k, isC := vals[0].(*ssa.Const)
			if !isC || k.Value == nil {
				return false, false
			}
			b := k.Value.ExactString() == "true"
			under := 0
			for _, dc := range DomConds(r) {
				if dc.If == nil {
					continue
				}
				if i := errSuccessIdx(dc.If, rc); i >= 0 {
					_, pol0 := condAtom(dc.If.Cond)
					_ = pol0
					// dc.Pol is the truth of dc.V (= iff.Cond) on the way to r: succ 0 is taken iff Pol
					took := 1
					if dc.Pol {
						took = 0
					}
					if took == i {
						under = 1
					} else {
						under = -1
					}
				}
			}
			switch under {
			case 1:
				if sv != nil && *sv != b {
					return false, false
				}
				sv = &b
			case -1:
				if fv != nil && *fv != b {
					return false, false
				}
				fv = &b
			default:
				return false, false
			}
		}
		if sv == nil || fv == nil || *sv == *fv {
			return false, false
		}
		return *sv, true
	}
	// success edges of rotation tests in Write
	success := map[*ssa.BasicBlock]int{}
	nrot := 0
	for _, call := range Calls(w) {
		cv, ok := call.(*ssa.Call)
		if !ok {
			continue
		}
		f := cv.Call.StaticCallee()
		if f == nil || f.Blocks == nil {
			continue
		}
		direct := f == rot
		if !direct && (PkgOf(f) != PkgOf(w) || callsRotate(f) == nil) {
			continue
		}
		nrot++
		for _, b := range w.Blocks {
			if len(b.Instrs) == 0 {
				continue
			}
			iff, ok := b.Instrs[len(b.Instrs)-1].(*ssa.If)
			if !ok {
				continue
			}
			if isErr(cv.Type()) {
				if i := errSuccessIdx(iff, cv); i >= 0 {
					success[b] = i
				}
				continue
			}
			atom, pol0 := condAtom(iff.Cond)
			if atom == ssa.Value(cv) {
				if sv, ok := helperSuccess(f); ok {
					if sv == pol0 {
						success[b] = 0
					} else {
						success[b] = 1
					}
				}
			}
		}
	}
	c.Check(nrot >= 1 && len(success) >= 1, rule, "rotation tests in Write", p.Pos(w.Pos()), fmt.Sprintf("%d rotation calls, %d tested", nrot, len(success)), "rotateFile.Write has no rotation whose outcome it tests")
	allow := func(b *ssa.BasicBlock, i int) bool {
		if si, ok := success[b]; ok && si == i {
			return false
		}
		return true
	}
	isFileWrite := func(in ssa.Instruction) bool {
		cv, ok := in.(*ssa.Call)
		return ok && MethodIs(cv.Call.StaticCallee(), "os", "File", "Write")
	}
	n := 0
	for _, call := range Calls(w) {
		cv, ok := call.(*ssa.Call)
		if !ok || !isFileWrite(cv) {
			continue
		}
		sl, ok := cv.Call.Args[1].(*ssa.Slice)
		if !ok || sl.High == nil {
			continue // the rest of the batch, newline included
		}
		n++
		reach := InstrReachFrom(w, cv, allow, func(ssa.Instruction) bool { return false })
		bad := ""
		for _, c2 := range Calls(w) {
			if isFileWrite(c2) && reach(c2) {
				bad = p.InstrPos(c2)
			}
		}
		c.Check(bad == "", rule, "after prefix write "+RenderN(sl, 2), p.InstrPos(cv), "every way on to another write passes a rotation that succeeded",
			"after the lines before the split point were written without their final newline (which is skipped), the write at "+bad+" can be reached without a successful rotation in between – e.g. when rotate() fails and writing continues in the current file: the next event follows the unterminated one on the same line and neither is parseable")
	}
	c.Floor(rule, 2, "rotation tests and the prefix write")
}
