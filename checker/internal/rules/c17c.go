package rules

import (
	"fmt"
	"go/token"
	"go/types"

	. "htcheck/internal/core"

	"golang.org/x/tools/go/ssa"
)

// c17NoSignExtension (rule value-composed-unsigned): a multi-byte value assembled with `|` from narrower pieces is the
// big-endian value at the cursor only if every piece that does not end up in the top bits is unsigned when it is
// widened: widening a SIGNED narrower integer (int16 -> int32) copies its sign bit into all higher bits, and the OR
// then overwrites the upper half with ones whenever the low piece is >= 0x80… (0x00008000 decodes as 0xffff8000).
func c17NoSignExtension(c *Ctx, rels ...string) {
	const rule = "value-composed-unsigned"
	c.Explanation += " Values the decoder composes with | do not widen a signed narrower piece below the top position (no sign extension into the upper bits)."
	p := c.P
	signedNarrow := func(v ssa.Value) (string, bool) {
		cv, ok := v.(*ssa.Convert)
		if !ok {
			return "", false
		}
		from, ok1 := cv.X.Type().Underlying().(*types.Basic)
		to, ok2 := cv.Type().Underlying().(*types.Basic)
		if !ok1 || !ok2 || from.Info()&types.IsInteger == 0 || to.Info()&types.IsInteger == 0 {
			return "", false
		}
		if from.Info()&types.IsUnsigned != 0 {
			return "", false
		}
		sz := func(b *types.Basic) int {
			switch b.Kind() {
			case types.Int8, types.Uint8:
				return 1
			case types.Int16, types.Uint16:
				return 2
			case types.Int32, types.Uint32:
				return 4
			}
			return 8
		}
		if sz(from) >= sz(to) {
			return "", false
		}
		if _, isC := cv.X.(*ssa.Const); isC {
			return "", false
		}
		return fmt.Sprintf("%s(%s)", to.Name(), from.Name()), true
	}
	n := 0
	for _, fn := range p.FuncsIn(rels...) {
		for _, b := range fn.Blocks {
			for _, in := range b.Instrs {
				bo, ok := in.(*ssa.BinOp)
				if !ok || bo.Op != token.OR {
					continue
				}
				if _, isInt := bo.Type().Underlying().(*types.Basic); !isInt {
					continue
				}
				n++
				bad := ""
				for _, op := range []ssa.Value{bo.X, bo.Y} {
					// a piece that is shifted to the top may be signed (its sign is the value's sign); an unshifted one may not
					if how, isS := signedNarrow(op); isS {
						bad = how + " of `" + RenderN(op, 2) + "`"
					}
				}
				c.Check(bad == "", rule, fmt.Sprintf("%s | #%d", shortFn(fn), n), p.InstrPos(bo), "no signed piece is widened below the top position", "the value is composed with | from a piece widened by "+bad+", a signed narrower integer that is not shifted to the top: its sign bit is copied into all higher bits, so a field whose low part has its top bit set (0x00008000, 0x1234abcd) decodes with the upper half all ones – not the big-endian value at the cursor")
			}
		}
	}
	c.Ok(rule, "| compositions in the decoder", "-", fmt.Sprintf("%d examined in %v", n, rels))
}
