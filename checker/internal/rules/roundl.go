package rules

import (
	"fmt"
	"go/token"
	"go/types"

	. "htcheck/internal/core"

	"golang.org/x/tools/go/ssa"
)

// readLinePrefixHonoured (rule readline-prefix-honoured): (*bufio.Reader).ReadLine returns a line longer than the
// reader's buffer in pieces and says so in its second result. A caller that drops that result treats every piece as a
// line of its own: one long command is logged and executed as several.
func readLinePrefixHonoured(c *Ctx, rule, consequence string, rels ...string) {
	p := c.P
	n := 0
	for _, fn := range p.FuncsIn(rels...) {
		for _, call := range Calls(fn) {
			cv, ok := call.(*ssa.Call)
			if !ok || !MethodIs(cv.Call.StaticCallee(), "bufio", "Reader", "ReadLine") {
				continue
			}
			n++
			used := false
			if cv.Referrers() != nil {
				for _, r := range *cv.Referrers() {
					if ex, ok := r.(*ssa.Extract); ok && ex.Index == 1 && ex.Referrers() != nil {
						for _, r2 := range *ex.Referrers() {
							if _, isDbg := r2.(*ssa.DebugRef); !isDbg {
								used = true
							}
						}
					}
				}
			}
			c.Check(used, rule, shortFn(fn)+" ReadLine", p.InstrPos(cv), "the isPrefix result is looked at", "ReadLine's isPrefix result is dropped: a line longer than the reader's buffer (4096 bytes by default) comes back in pieces and every piece is taken for a line – "+consequence)
		}
	}
	c.Ok(rule, "ReadLine calls", "-", fmt.Sprintf("%d examined in %v", n, rels))
}

// chunksAdvance (rule chunk-source-advances): a loop that sends a buffer in pieces takes each piece from where the last
// one ended. A piece cut as b[:end] with a loop-variant end and no lower bound is the START of the buffer again: sizes,
// counts and tags are right and the bytes after the first piece are wrong.
func chunksAdvance(c *Ctx, rule, consequence string, fns ...*ssa.Function) {
	p := c.P
	n := 0
	for _, fn := range fns {
		if fn == nil || fn.Blocks == nil {
			continue
		}
		for _, l := range Loops(fn) {
			for b := range l.Blocks {
				for _, in := range b.Instrs {
					call, ok := in.(*ssa.Call)
					if !ok {
						continue
					}
					bi, ok := call.Call.Value.(*ssa.Builtin)
					if !ok || bi.Name() != "copy" || len(call.Call.Args) != 2 {
						continue
					}
					src, ok := call.Call.Args[1].(*ssa.Slice)
					if !ok {
						continue
					}
					if _, isPar := c15Root(src.X).(*ssa.Parameter); !isPar {
						continue
					}
					n++
					variant := false
					if src.High != nil {
						if hv, ok := src.High.(ssa.Instruction); ok && l.Blocks[hv.Block()] {
							variant = true
						}
					}
					bad := variant && src.Low == nil
					c.Check(!bad, rule, fmt.Sprintf("%s copy #%d", shortFn(fn), n), p.InstrPos(call), "each piece starts where the previous one ended", "inside the chunking loop the piece is cut as `"+RenderN(src, 2)+"` – an upper bound that moves with the loop and no lower bound: every piece after the first repeats the start of the buffer – "+consequence)
				}
			}
		}
	}
	c.Ok(rule, "copies of the caller's buffer inside loops", "-", fmt.Sprintf("%d examined", n))
}

// sharedScratchUnderLock (rule shared-scratch-under-lock): fn runs on several goroutines (the receive loop and every
// port handler call Canary.send). Whatever it writes into a field of the shared object – a scratch buffer kept to save
// allocations – it writes under that object's mutex; built outside the lock, two senders assemble their frames in the
// same memory and the ring gets frames that mix two connections.
func sharedScratchUnderLock(c *Ctx, rule string, fn *ssa.Function, muField string, consequence string) {
	p := c.P
	if fn == nil || fn.Blocks == nil || len(fn.Params) == 0 {
		return
	}
	recv := fn.Params[0]
	okMu := func(v ssa.Value) bool {
		fa, ok := v.(*ssa.FieldAddr)
		return ok && fieldNameOf(fa) == muField && c15Root(fa.X) == ssa.Value(recv)
	}
	n := 0
	for _, b := range fn.Blocks {
		for _, in := range b.Instrs {
			st, ok := in.(*ssa.Store)
			if !ok {
				continue
			}
			fa, ok := st.Addr.(*ssa.FieldAddr)
			if !ok || c15Root(fa.X) != ssa.Value(recv) {
				continue
			}
			n++
			locked, _ := c01HeldAt(fn, st, true, okMu)
			c.Check(locked, rule, fmt.Sprintf("%s writes .%s", shortFn(fn), fieldNameOf(fa)), p.InstrPos(st), "with the object's mutex held", "the shared object's field "+fieldNameOf(fa)+" is written without "+muField+" held, in a function every connection's goroutine calls: "+consequence)
		}
	}
	c.Ok(rule, "stores to fields of the shared object in "+shortFn(fn), "-", fmt.Sprintf("%d examined", n))
}

// loopLeavesOnReadError (rule drain-loop-leaves-on-error): a loop that consumes from the connection and tests the
// error of its read/discard must leave on a non-nil error. A test that only ever leaves when the error is nil keeps the
// handler spinning on a closed connection for good.
func loopLeavesOnReadError(c *Ctx, rule, consequence string, rels ...string) {
	p := c.P
	n := 0
	consuming := map[string]bool{"Discard": true, "Read": true, "ReadFull": true, "ReadByte": true, "ReadString": true, "ReadBytes": true, "ReadLine": true, "ReadSlice": true, "CopyN": true}
	for _, fn := range p.FuncsIn(rels...) {
		for _, l := range Loops(fn) {
			for b := range l.Blocks {
				for _, in := range b.Instrs {
					call, ok := in.(*ssa.Call)
					if !ok {
						continue
					}
					name := ""
					if call.Call.IsInvoke() {
						name = call.Call.Method.Name()
					} else if f := call.Call.StaticCallee(); f != nil && (PkgOf(f) == "bufio" || PkgOf(f) == "io") {
						name = f.Name()
					}
					if !consuming[name] {
						continue
					}
					// judged against the innermost loop around the call only
					inner := true
					for _, l2 := range Loops(fn) {
						if l2 != l && l2.Blocks[b] && len(l2.Blocks) < len(l.Blocks) {
							inner = false
						}
					}
					if !inner {
						continue
					}
					tup, ok := call.Type().(*types.Tuple)
					if !ok || tup.Len() < 2 || tup.At(tup.Len()-1).Type().String() != "error" {
						continue
					}
					var errV ssa.Value
					if call.Referrers() != nil {
						for _, r := range *call.Referrers() {
							if ex, ok := r.(*ssa.Extract); ok && ex.Index == tup.Len()-1 {
								errV = ex
							}
						}
					}
					if errV == nil {
						continue
					}
					// tests of err inside the loop
					tested, leaves := false, false
					for tb := range l.Blocks {
						if len(tb.Instrs) == 0 {
							continue
						}
						iff, ok := tb.Instrs[len(tb.Instrs)-1].(*ssa.If)
						if !ok {
							continue
						}
						atom, pol0 := condAtom(iff.Cond)
						bo, ok := atom.(*ssa.BinOp)
						if !ok || (bo.Op != token.EQL && bo.Op != token.NEQ) {
							continue
						}
						if !((bo.X == errV && !IsNilConst(bo.X)) || bo.Y == errV) {
							continue
						}
						other := bo.Y
						if bo.Y == errV {
							other = bo.X
						}
						tested = true
						// successor taken when err != nil (comparison with nil) or err == sentinel (io.EOF)
						idx := 0
						if IsNilConst(other) {
							if (bo.Op == token.NEQ) != pol0 {
								idx = 1
							}
						} else {
							if (bo.Op == token.EQL) != pol0 {
								idx = 1
							}
						}
						if !l.Blocks[tb.Succs[idx]] {
							leaves = true
						}
					}
					// the error handed on (returned, passed to a helper) also counts as handled
					if errV.Referrers() != nil {
						for _, r := range *errV.Referrers() {
							switch r.(type) {
							case *ssa.Return:
								leaves = true
							case ssa.CallInstruction, *ssa.Store, *ssa.Phi, *ssa.MakeInterface:
								leaves = true
							}
						}
					}
					if !tested {
						continue
					}
					n++
					c.Check(leaves, rule, fmt.Sprintf("%s: %s in a loop", shortFn(fn), name), p.InstrPos(call), "a failed read ends the loop", "the loop tests the error of this "+name+" but no branch taken on a non-nil error leaves the loop: once the peer has closed (or reset) the connection the call fails at once, every time, and the loop never ends – "+consequence)
				}
			}
		}
	}
	c.Ok(rule, "consuming loops that test their read error", "-", fmt.Sprintf("%d examined in %v", n, rels))
}

// eolEndsOptionParsing (rule eol-ends-option-parsing): End-of-Option-List ends the options of a TCP header; what
// follows it is padding and is not parsed. A parser that goes on after EOL reads left-over octets as options, rejects
// the segment when they are malformed – and a SYN that is rejected is a probe that is never counted.
func eolEndsOptionParsing(c *Ctx, rule, consequence string) {
	p := c.P
	um := p.Method(canaryRel+"/tcp", "Header", "Unmarshal")
	if !c.Anchor(um != nil && um.Blocks != nil, rule, "(*tcp.Header).Unmarshal") {
		return
	}
	n := 0
	// the option loop may sit in a helper of the package that Unmarshal calls (parseOptions)
	scope := []*ssa.Function{um}
	for _, call := range Calls(um) {
		if h := call.Common().StaticCallee(); h != nil && h != um && h.Blocks != nil && PkgOf(h) == PkgOf(um) {
			scope = append(scope, h)
		}
	}
	for _, sf := range scope {
		for _, l := range Loops(sf) {
			for b := range l.Blocks {
				if len(b.Instrs) == 0 {
					continue
				}
				iff, ok := b.Instrs[len(b.Instrs)-1].(*ssa.If)
				if !ok {
					continue
				}
				atom, pol0 := condAtom(iff.Cond)
				bo, ok := atom.(*ssa.BinOp)
				if !ok || (bo.Op != token.EQL && bo.Op != token.NEQ) {
					continue
				}
				var k *ssa.Const
				if kc, isC := bo.Y.(*ssa.Const); isC {
					k = kc
				} else if kc, isC := bo.X.(*ssa.Const); isC {
					k = kc
				}
				if k == nil || k.Value == nil || k.Value.ExactString() != "0" {
					continue
				}
				nt := NamedOf(k.Type())
				if nt == nil || nt.Obj().Name() != "OptionKind" {
					continue
				}
				n++
				eqIdx := 0
				if (bo.Op == token.EQL) != pol0 {
					eqIdx = 1
				}
				c.Check(!l.Blocks[b.Succs[eqIdx]], rule, "Unmarshal: option kind 0", p.InstrPos(iff), "leaves the option loop", "after End-of-Option-List the option loop goes on: the octets behind it are parsed as options and a malformed one makes Unmarshal fail – "+consequence)
			}
		}
	}
	c.Floor(rule, 1, "the EOL arm of the option loop")
}
