package rules

import (
	"fmt"
	"go/token"
	"go/types"
	"sort"
	"strings"

	"golang.org/x/tools/go/callgraph"
	"golang.org/x/tools/go/ssa"

	. "htcheck/internal/core"
	"htcheck/internal/zone"
)

func init() { Registry["C01"] = c01 }

// c01Services: the 24 director-less services named by the property.
var c01Services = []string{"adb", "counterstrike", "cwmp", "dns", "docker", "echo", "elasticsearch", "eos", "ethereum", "ftp", "http", "https", "ipp", "ldap", "memcached", "ntp", "redis", "smtp", "snmp", "ssh-auth", "ssh-simulator", "telnet", "tftp", "vnc"}

type goRoot struct {
	site ssa.Instruction
	fn   *ssa.Function
	from *ssa.Function
}

// handleReach: every in-repo function reachable from Handle (through calls and go statements), with the go roots met.
func handleReach(g *callgraph.Graph, h *ssa.Function) (map[*ssa.Function]bool, []goRoot) {
	seen := map[*ssa.Function]bool{h: true}
	var roots []goRoot
	queue := []*ssa.Function{h}
	for len(queue) > 0 {
		fn := queue[0]
		queue = queue[1:]
		n := g.Nodes[fn]
		if n == nil {
			continue
		}
		for _, e := range n.Out {
			cal := e.Callee.Func
			if cal == nil {
				continue
			}
			if _, isGo := e.Site.(*ssa.Go); isGo {
				roots = append(roots, goRoot{site: e.Site, fn: cal, from: fn})
			}
			if !InRepo(cal) || cal.Blocks == nil || seen[cal] {
				continue
			}
			seen[cal] = true
			queue = append(queue, cal)
		}
	}
	return seen, roots
}

func c01(c *Ctx) {
	p := c.P
	c.Explanation = "Static check of four causes of process death from client traffic, over all inputs and schedules: (a) for every service named by the property the call graph (VTA) reachable from Handle is computed; every goroutine started there either installs a recover first or its " +
		"same-goroutine reach contains no explicit panic, logger Panic/Fatal, os.Exit, unchecked type assertion, nor any index/slice/make the difference-bound prover cannot discharge (reviewed exceptions named individually); no exit site (log.Fatal, os.Exit) is reachable from any Handle at all; " +
		"(b) no function reachable from Handle calls itself on every path (unbounded recursion); (c) every access to a map stored in the shared service object is under a mutex of that object; (d) every loop driven by reads from the bounds-checked decoder has an exit that tests the decoder's error " +
		"state (a failed read returns zero and does not advance). Implicit panics on the per-connection goroutine itself are covered by the dispatcher's recover, whose presence is checked. General memory growth and third-party code are not decided."
	c.Assume("golang.org/x/crypto/ssh runs auth callbacks on the goroutine that called NewServerConn (so they sit under the dispatcher's recover)")
	c.Assume("library goroutines (ssh.DiscardRequests, io.Copy) do not panic on peer input")
	svcs := Services(c)
	g := p.VTA()
	byName := map[string]Service{}
	for _, s := range svcs {
		for _, n := range s.Names {
			byName[n] = s
		}
	}
	for _, n := range c01Services {
		_, ok := byName[n]
		c.Check(ok, "service-present", n, "-", "", "service named by the property is no longer registered")
	}
	// dispatcher recover
	disp := p.Method("server", "Honeytrap", "handle")
	if c.Anchor(disp != nil, "dispatcher-recover", "(*server.Honeytrap).handle") {
		c.Check(hasRecover(disp), "dispatcher-recover", "handle installs recover first", p.Pos(disp.Pos()), "per-connection recover in place", "the per-connection goroutine no longer installs a deferred recover before calling the service: any panic in a handler kills the process")
		// and it is started with `go` from the accept loop
	}
	inDomain := map[*ssa.Function]bool{}
	allReach := map[*ssa.Function]bool{}
	type rootInfo struct {
		r    goRoot
		svcs []string
	}
	roots := map[*ssa.Function]*rootInfo{}
	for _, s := range svcs {
		listed := false
		for _, n := range s.Names {
			for _, w := range c01Services {
				if n == w {
					listed = true
				}
			}
		}
		reach, rs := handleReach(g, s.Handle)
		if listed {
			inDomain[s.Handle] = true
			for fn := range reach {
				allReach[fn] = true
			}
		}
		for _, r := range rs {
			if !listed {
				continue
			}
			ri := roots[r.fn]
			if ri == nil {
				ri = &rootInfo{r: r}
				roots[r.fn] = ri
			}
			ri.svcs = append(ri.svcs, strings.Join(s.Names, "/"))
		}
	}
	var rootFns []*ssa.Function
	for fn := range roots {
		rootFns = append(rootFns, fn)
	}
	sort.Slice(rootFns, func(i, j int) bool { return rootFns[i].String() < rootFns[j].String() })
	for _, fn := range rootFns {
		ri := roots[fn]
		sv := uniqS(ri.svcs)
		key := shortFn(fn) + " started by " + shortFn(ri.r.from)
		if !InRepo(fn) || fn.Blocks == nil {
			c.Observe("goroutine-root", key, p.InstrPos(ri.r.site), "library goroutine (assumed not to panic on peer input); services: "+strings.Join(sv, ","))
			continue
		}
		if hasRecover(fn) {
			c.Ok("goroutine-root", key, p.InstrPos(ri.r.site), "installs a deferred recover before anything else")
			continue
		}
		probs, nfns := goroutinePanicSites(p, g, fn)
		bad := len(probs)
		for _, pr := range probs {
			c.Violate("unrecovered-goroutine", key+": "+pr.key, pr.pos, pr.msg)
		}
		fns := make([]struct{}, nfns)
		if bad == 0 {
			c.Ok("unrecovered-goroutine", key, p.InstrPos(ri.r.site), fmt.Sprintf("no recover, but nothing in its same-goroutine reach (%d functions) can panic explicitly or by an unproven index/slice/assertion", len(fns)))
		}
	}
	c01DispatchConfined(c)
	c.Floor("goroutine-root", 1, "vnc serve")
	c.Floor("unrecovered-goroutine", 4, "ftp pump, ftp passive accept, smtp pump, vnc ticker")
	// exit sites anywhere under a listed Handle
	var rf []*ssa.Function
	for fn := range allReach {
		rf = append(rf, fn)
	}
	sort.Slice(rf, func(i, j int) bool { return rf[i].String() < rf[j].String() })
	for _, fn := range rf {
		if !strings.HasPrefix(RelPkg(PkgOf(fn)), "services") {
			continue // the event pipeline's back ends are not client-input handlers
		}
		for _, call := range Calls(fn) {
			if k := killSite(call); k == "fatal" || k == "exit" {
				c.Violate("no-exit-site", shortFn(fn)+" "+calleeLabel(call), p.InstrPos(call), "a call that exits the process is reachable from a service handler: recover does not help against os.Exit/log.Fatal")
			}
		}
	}
	c.Ok("no-exit-site", "handler reach scanned", "-", fmt.Sprintf("%d functions under services/ reachable from the listed handlers", len(rf)))
	c01MustRecurse(c, allReach)
	c01SharedMaps(c, svcs, allReach)
	c01DecoderLoops(c, allReach)
	c01UnlockBalanced(c)
	// the decoder-driven loops leave through the decoder's recorded error: it must stay set once set (shared with C09/C17)
	decoderErrorSticky(c, "decoder-error-sticky")
	// a lock of the shared service object that a recovered panic leaves held stops the service for every later connection (shared with C09)
	c09LockRelease(c)
}

func min(a, b int) int {
	if a < b {
		return a
	}
	return b
}

func uniqS(s []string) []string {
	sort.Strings(s)
	return uniq(s)
}

// ---- (b) must-recurse ------------------------------------------------------------------------------------------

func c01MustRecurse(c *Ctx, reach map[*ssa.Function]bool) {
	p := c.P
	var fns []*ssa.Function
	for fn := range reach {
		fns = append(fns, fn)
	}
	sort.Slice(fns, func(i, j int) bool { return fns[i].String() < fns[j].String() })
	nrec := 0
	for _, fn := range fns {
		selfBlocks := map[*ssa.BasicBlock]bool{}
		var site ssa.Instruction
		for _, call := range Calls(fn) {
			if _, isGo := call.(*ssa.Go); isGo {
				continue
			}
			if call.Common().StaticCallee() == fn {
				selfBlocks[call.Block()] = true
				site = call
			}
		}
		if len(selfBlocks) == 0 {
			continue
		}
		nrec++
		// can a return be reached without executing a self-call?
		r := ReachBlocks([]*ssa.BasicBlock{fn.Blocks[0]}, nil, selfBlocks)
		escapes := false
		for _, ret := range Returns(fn) {
			if r[ret.Block()] {
				escapes = true
			}
		}
		// panics also end the recursion
		for b := range r {
			for _, in := range b.Instrs {
				if _, ok := in.(*ssa.Panic); ok {
					escapes = true
				}
			}
		}
		// a self-call that passes on exactly the function's own parameters (or has none) makes no progress through its
		// arguments: whether it ever stops depends on state outside the call (a field, the file system), which a peer may
		// be able to pin – e.g. "go to the parent directory and try again" at the root
		for _, call := range Calls(fn) {
			if _, isGo := call.(*ssa.Go); isGo || call.Common().StaticCallee() != fn {
				continue
			}
			same := true
			for i, a := range call.Common().Args {
				if i >= len(fn.Params) || a != ssa.Value(fn.Params[i]) {
					same = false
				}
			}
			c.Check(!same, "no-unconditional-recursion", shortFn(fn)+" self-call makes progress", p.InstrPos(call), "the self-call is given different arguments", "this function calls itself with exactly the arguments it was called with: the recursion does not descend on anything, so it ends only if state outside the call changes; where a client can keep that state fixed (e.g. the directory walked up to is its own parent) the stack grows until the runtime aborts the whole process (stack exhaustion is not recoverable)")
		}
		c.Check(escapes, "no-unconditional-recursion", shortFn(fn), p.InstrPos(site), "recursive, but some path returns without recursing", "every path through this function calls the function itself again ("+p.InstrPos(site)+"): the first call never returns and the goroutine's stack grows until the runtime aborts the whole process (stack exhaustion is not recoverable)")
	}
	c.Extra["self_recursive_functions_reachable"] = nrec
}

// ---- (c) shared maps -------------------------------------------------------------------------------------------

func c01SharedMaps(c *Ctx, svcs []Service, reach map[*ssa.Function]bool) {
	p := c.P
	// shared types: closure of the Servicer struct types over their field types
	shared := map[*types.Named]bool{}
	var add func(t types.Type, d int)
	add = func(t types.Type, d int) {
		if d > 6 {
			return
		}
		switch x := t.(type) {
		case *types.Pointer:
			add(x.Elem(), d+1)
		case *types.Named:
			if x.Obj().Pkg() == nil || !strings.HasPrefix(x.Obj().Pkg().Path(), ModPath+"/services") || shared[x] {
				return
			}
			st, ok := x.Underlying().(*types.Struct)
			if !ok {
				return
			}
			shared[x] = true
			for i := 0; i < st.NumFields(); i++ {
				add(st.Field(i).Type(), d+1)
			}
		case *types.Slice:
			add(x.Elem(), d+1)
		}
	}
	for _, s := range svcs {
		add(s.Type, 0)
	}
	type acc struct {
		in    ssa.Instruction
		fn    *ssa.Function
		write bool
		base  ssa.Value
	}
	byField := map[string][]acc{}
	mapField := func(v ssa.Value) (string, ssa.Value) {
		ld, ok := isLoad(v)
		if !ok {
			return "", nil
		}
		switch a := ld.X.(type) {
		case *ssa.FieldAddr:
			n := NamedOf(a.X.Type())
			if n == nil || !shared[n] {
				return "", nil
			}
			return TypeKey(n) + "." + fieldNameOf(a), a.X
		case *ssa.Global:
			if strings.HasPrefix(a.Pkg.Pkg.Path(), ModPath+"/services") {
				return "var " + RelPkg(a.Pkg.Pkg.Path()) + "." + a.Name(), a
			}
		}
		return "", nil
	}
	var fns []*ssa.Function
	for fn := range reach {
		fns = append(fns, fn)
	}
	sort.Slice(fns, func(i, j int) bool { return fns[i].String() < fns[j].String() })
	for _, fn := range fns {
		for _, b := range fn.Blocks {
			for _, in := range b.Instrs {
				var m ssa.Value
				write := false
				switch x := in.(type) {
				case *ssa.MapUpdate:
					m, write = x.Map, true
				case *ssa.Lookup:
					if _, isMap := x.X.Type().Underlying().(*types.Map); isMap {
						m = x.X
					}
				case *ssa.Range:
					if _, isMap := x.X.Type().Underlying().(*types.Map); isMap {
						m = x.X
					}
				case *ssa.Call:
					if bi, ok := x.Call.Value.(*ssa.Builtin); ok && bi.Name() == "delete" {
						m, write = x.Call.Args[0], true
					}
				}
				if m == nil {
					continue
				}
				if k, base := mapField(m); k != "" {
					byField[k] = append(byField[k], acc{in, fn, write, base})
				}
			}
		}
	}
	var keys []string
	for k := range byField {
		keys = append(keys, k)
	}
	sort.Strings(keys)
	for _, k := range keys {
		accs := byField[k]
		anyWrite := false
		for _, a := range accs {
			if a.write {
				anyWrite = true
			}
		}
		if !anyWrite {
			c.Observe("shared-map-locked", k, p.InstrPos(accs[0].in), fmt.Sprintf("read-only in handler-reachable code (%d reads)", len(accs)))
			continue
		}
		for i, a := range accs {
			baseR := Render(a.base)
			locked, sharedOnly := c01HeldAt(a.fn, a.in, a.write, func(mu ssa.Value) bool {
				if fa, ok := mu.(*ssa.FieldAddr); ok {
					return Render(fa.X) == baseR
				}
				_, ok := mu.(*ssa.Global)
				return ok
			})
			if !locked && !sharedOnly {
				// the function runs under its callers' lock (a "caller has to hold the lock" helper, or a closure run by a lock wrapper)
				bt := NamedOf(a.base.Type())
				locked = c01CallersHold(p, a.fn, a.write, func(mu ssa.Value) bool {
					if fa, ok := mu.(*ssa.FieldAddr); ok {
						return bt != nil && NamedOf(fa.X.Type()) == bt
					}
					_, ok := mu.(*ssa.Global)
					return ok
				}, 0, map[*ssa.Function]bool{})
			}
			if !locked && sharedOnly {
				c.Violate("shared-map-locked", fmt.Sprintf("%s write[%d] in %s", k, i, shortFn(a.fn)), p.InstrPos(a.in), "a map stored in the shared service object is written (insert/delete) while only the read lock (RLock) is held: read locks do not exclude each other, so two connections at once cause `fatal error: concurrent map writes`, which no recover can catch")
				continue
			}
			kind := "read"
			if a.write {
				kind = "write"
			}
			c.Check(locked, "shared-map-locked", fmt.Sprintf("%s %s[%d] in %s", k, kind, i, shortFn(a.fn)), p.InstrPos(a.in), "under a mutex of the same object", "a map stored in the shared service object is accessed ("+kind+") by concurrent handler goroutines without holding a mutex of that object: two connections at once cause `fatal error: concurrent map read and map write`, which no recover can catch")
		}
	}
}

// ---- (d) decoder-driven loops ------------------------------------------------------------------------------------

func isDecoderType(t types.Type) bool {
	n := NamedOf(t)
	if n == nil || n.Obj().Pkg() == nil {
		return false
	}
	if n.Obj().Pkg().Path() == ModPath+"/"+decRel && (n.Obj().Name() == "Decoder" || n.Obj().Name() == "Decode") {
		return true
	}
	// a struct embedding the decoder (payloadDecoder)
	if st, ok := n.Underlying().(*types.Struct); ok {
		for i := 0; i < st.NumFields(); i++ {
			if st.Field(i).Embedded() && isDecoderType(st.Field(i).Type()) {
				return true
			}
		}
	}
	return false
}

var decoderReads = map[string]bool{"Byte": true, "Int16": true, "Int32": true, "Uint32": true, "Data": true, "Copy": true, "PeekByte": true, "PeekInt16": true}

// decoderReadCall: the call reads from a decoder (directly, or through an in-repo function that is handed the decoder).
func decoderReadCall(call ssa.CallInstruction, depth int, p *Program) bool {
	cc := call.Common()
	if cc.IsInvoke() {
		if isDecoderType(cc.Value.Type()) && decoderReads[cc.Method.Name()] {
			return true
		}
	}
	var hasDec bool
	args := cc.Args
	if cc.IsInvoke() {
		// interface method taking a decoder (ValueType.decode(dec)): look at implementations
	}
	for _, a := range args {
		if isDecoderType(a.Type()) {
			hasDec = true
		}
	}
	if f := cc.StaticCallee(); f != nil {
		if f.Signature.Recv() != nil && isDecoderType(f.Signature.Recv().Type()) && (decoderReads[f.Name()] || f.Name() == "String") {
			return true
		}
		if hasDec && InRepo(f) && f.Blocks != nil && depth > 0 {
			for _, c2 := range Calls(f) {
				if decoderReadCall(c2, depth-1, p) {
					return true
				}
			}
		}
		return false
	}
	if hasDec && cc.IsInvoke() && depth > 0 {
		for _, f := range calleesOf(p, call) {
			if f.Blocks == nil {
				continue
			}
			for _, c2 := range Calls(f) {
				if decoderReadCall(c2, depth-1, p) {
					return true
				}
			}
		}
	}
	return false
}

// readOrigin: v is (a phi/conversion of) the result of a decoder read.
func readOrigin(v ssa.Value, p *Program, seen map[ssa.Value]bool) bool {
	if seen[v] {
		return false
	}
	seen[v] = true
	switch x := v.(type) {
	case *ssa.Call:
		return decoderReadCall(x, 1, p)
	case *ssa.Phi:
		for _, e := range x.Edges {
			if readOrigin(e, p, seen) {
				return true
			}
		}
	case *ssa.Convert:
		return readOrigin(x.X, p, seen)
	case *ssa.ChangeType:
		return readOrigin(x.X, p, seen)
	}
	return false
}

// errorStateCond: the condition tests the decoder's error state: LastError()/HasBytes() result, or the error
// returned by an in-repo callee that was handed the decoder and propagates its LastError.
func errorStateCond(v ssa.Value, p *Program) bool {
	b, ok := v.(*ssa.BinOp)
	if !ok || !IsNilConst(b.Y) {
		return false
	}
	call, ok := b.X.(*ssa.Call)
	if !ok {
		if ex, ok2 := b.X.(*ssa.Extract); ok2 {
			call, ok = ex.Tuple.(*ssa.Call)
		}
		if !ok {
			return false
		}
	}
	cc := call.Common()
	if cc.IsInvoke() && isDecoderType(cc.Value.Type()) && (cc.Method.Name() == "LastError" || cc.Method.Name() == "HasBytes") {
		return true
	}
	if f := cc.StaticCallee(); f != nil && f.Signature.Recv() != nil && isDecoderType(f.Signature.Recv().Type()) && (f.Name() == "LastError" || f.Name() == "HasBytes") {
		return true
	}
	// callee handed the decoder that returns its LastError
	hasDec := false
	for _, a := range cc.Args {
		if isDecoderType(a.Type()) {
			hasDec = true
		}
	}
	if !hasDec {
		return false
	}
	cs := calleesOf(p, call)
	if len(cs) == 0 {
		return false
	}
	for _, f := range cs {
		if f.Blocks == nil {
			return false
		}
		isLastErr := func(v ssa.Value) bool {
			c2, ok := v.(*ssa.Call)
			if !ok {
				return false
			}
			c2c := c2.Common()
			return c2c.IsInvoke() && isDecoderType(c2c.Value.Type()) && c2c.Method.Name() == "LastError"
		}
		// every `return nil` must be under a passed LastError()==nil test; other returns carry an error
		for _, r := range Returns(f) {
			rv := RetVals(r)
			ev := rv[len(rv)-1]
			if isLastErr(ev) {
				continue
			}
			if !IsNilConst(ev) {
				continue
			}
			ok := false
			for _, dc := range DomConds(r) {
				if b, isB := dc.V.(*ssa.BinOp); isB && IsNilConst(b.Y) && isLastErr(b.X) {
					if (b.Op == token.EQL && dc.Pol) || (b.Op == token.NEQ && !dc.Pol) {
						ok = true
					}
				}
			}
			if !ok {
				return false
			}
		}
	}
	return true
}

func c01DecoderLoops(c *Ctx, reach map[*ssa.Function]bool) {
	p := c.P
	var fns []*ssa.Function
	for fn := range reach {
		fns = append(fns, fn)
	}
	sort.Slice(fns, func(i, j int) bool { return fns[i].String() < fns[j].String() })
	// premise for tag comparisons: every store to a field named `tag` of an ipp value type stores a value > 0
	tagPositive := true
	vtIface := p.Iface(ippRel, "ValueType")
	for _, fn := range p.FuncsIn(ippRel) {
		for _, b := range fn.Blocks {
			for _, in := range b.Instrs {
				st, ok := in.(*ssa.Store)
				if !ok {
					continue
				}
				fa, ok := st.Addr.(*ssa.FieldAddr)
				if !ok || fieldNameOf(fa) != "tag" {
					continue
				}
				if n := NamedOf(fa.X.Type()); n == nil || vtIface == nil || !Implements(n, vtIface) {
					continue // group tags are delimiters, not continuation keys
				}
				if k, isC := ConstInt(st.Val); isC {
					if k <= 0 {
						tagPositive = false
					}
					continue
				}
				// `case valInteger, valEnum: &valInt{tag: vtag}` – every way into the arm compares the tag with a positive constant
				if subj, ks, okC := caseConstsInto(st.Block()); okC && subj == st.Val {
					pos := true
					for _, k := range ks {
						if k <= 0 {
							pos = false
						}
					}
					if pos {
						continue
					}
				}
				pr := zone.New(fn)
				if ok2, _ := pr.ProveGE(st.Val, 1, st); !ok2 {
					tagPositive = false
					c.Violate("decoder-loop-exits", "premise: "+shortFn(fn)+" stores a tag that may be 0", p.InstrPos(st), "a value/group tag that may be zero is stored: loops that continue while `read == tag` would not stop on a failed read (which yields 0)")
				}
			}
		}
	}
	nloops := 0
	for _, fn := range fns {
		// natural loops by back edges
		for _, u := range fn.Blocks {
			for _, h := range u.Succs {
				if !h.Dominates(u) {
					continue
				}
				// body: blocks that reach u without passing h
				body := map[*ssa.BasicBlock]bool{h: true, u: true}
				stack := []*ssa.BasicBlock{u}
				for len(stack) > 0 {
					x := stack[len(stack)-1]
					stack = stack[:len(stack)-1]
					if x == h {
						continue
					}
					for _, pr := range x.Preds {
						if !body[pr] {
							body[pr] = true
							stack = append(stack, pr)
						}
					}
				}
				reads := false
				for b := range body {
					for _, in := range b.Instrs {
						if call, ok := in.(ssa.CallInstruction); ok && decoderReadCall(call, 2, p) {
							reads = true
						}
					}
				}
				if !reads {
					continue
				}
				nloops++
				key := fmt.Sprintf("%s loop@block%d", shortFn(fn), h.Index)
				okExit := ""
				otherExit := false
				var rejected []string
				for b := range body {
					if len(b.Instrs) == 0 {
						continue
					}
					iff, ok := b.Instrs[len(b.Instrs)-1].(*ssa.If)
					if !ok {
						continue
					}
					for si, succ := range b.Succs {
						if body[succ] {
							continue
						}
						// exit edge b -> succ, taken when cond == (si==0)
						atom, pol0 := condAtom(iff.Cond)
						takenWhenAtom := (si == 0) == pol0
						if errorStateCond(atom, p) {
							bo := atom.(*ssa.BinOp)
							errSet := (bo.Op == token.NEQ) == takenWhenAtom
							if errSet {
								okExit = "leaves when the decoder's error state is set"
							}
							continue
						}
						bo, isB := atom.(*ssa.BinOp)
						if !isB {
							otherExit = true
							continue
						}
						// counted loop over something that is not decoder data
						if bo.Op == token.LSS && isAscendingIndex(bo.X) {
							if x, ok := isLenOf(bo.Y); ok && !readOrigin(x, p, map[ssa.Value]bool{}) {
								okExit = "bounded by the length of a slice that is not decoder output"
							}
							continue
						}
						// evaluate the condition for a failed read (value 0)
						rd, other := bo.X, bo.Y
						if !readOrigin(rd, p, map[ssa.Value]bool{}) {
							rd, other = bo.Y, bo.X
						}
						if !readOrigin(rd, p, map[ssa.Value]bool{}) {
							if s := Render(atom); strings.Contains(s, "Available") {
								rejected = append(rejected, "`"+s+"` (Available() never reaches 0 after a failed read: the cursor does not advance)")
							} else {
								otherExit = true
							}
							continue
						}
						var k int64
						known := false
						if kk, isC := ConstInt(other); isC {
							k, known = kk, true
						} else if _, isTag := isFieldLoadNamed(other, "tag"); isTag && tagPositive {
							k, known = 1, true // some positive value
						}
						if !known {
							continue
						}
						// value of atom with read == 0
						var val, def bool
						zeroLeft := rd == bo.X
						a, b2 := int64(0), k
						if !zeroLeft {
							a, b2 = k, 0
						}
						def = true
						switch bo.Op {
						case token.EQL:
							val = a == b2
						case token.NEQ:
							val = a != b2
						case token.LSS:
							val = a < b2
						case token.LEQ:
							val = a <= b2
						case token.GTR:
							val = a > b2
						case token.GEQ:
							val = a >= b2
						default:
							def = false
						}
						if def && val == takenWhenAtom {
							okExit = "leaves when a read yields 0 (what a failed read returns): " + Render(atom)
						} else if def {
							rejected = append(rejected, "`"+Render(atom)+"` keeps looping when the read yields 0")
						}
					}
				}
				if okExit != "" {
					c.Ok("decoder-loop-exits", key, p.InstrPos(h.Instrs[0]), okExit)
				} else if otherExit && len(rejected) == 0 {
					c.Observe("decoder-loop-exits", key, p.InstrPos(h.Instrs[0]), "contains decoder reads but its continuation does not depend on the decoder (e.g. ranging over a channel)")
				} else {
					sort.Strings(rejected)
					c.Violate("decoder-loop-exits", key, p.InstrPos(h.Instrs[0]), "this loop is driven by reads from the bounds-checked decoder but has no exit that tests the decoder's error state; a failed read returns zero without advancing, so on a truncated input the loop spins forever (appending to a slice each round) "+strings.Join(uniq(rejected), "; "))
				}
			}
		}
	}
	c.Check(nloops >= 6, "decoder-loop-exits", "decoder-driven loops found", "-", fmt.Sprint(nloops), fmt.Sprintf("expected at least 6 decoder-driven loops (ipp message/group/values, ssh env/exec), found %d", nloops))
	// the cursor only moves backwards by constants (look-ahead rewinds, bounded by what the iteration just read): a relative
	// Seek by a value taken from the input must be provably non-negative, or the client can point the cursor back at bytes
	// already decoded and the loop re-decodes (and appends) for ever without any read failing
	nSeek := 0
	for _, fn := range fns {
		pr := zone.New(fn)
		for _, call := range Calls(fn) {
			cc := call.Common()
			isSeek := false
			var arg ssa.Value
			if cc.IsInvoke() && cc.Method.Name() == "Seek" && isDecoderType(cc.Value.Type()) && len(cc.Args) == 1 {
				isSeek, arg = true, cc.Args[0]
			} else if f := cc.StaticCallee(); f != nil && f.Name() == "Seek" && len(cc.Args) == 2 && isDecoderType(cc.Args[0].Type()) {
				isSeek, arg = true, cc.Args[1]
			}
			if !isSeek {
				continue
			}
			nSeek++
			key := fmt.Sprintf("%s: Seek #%d", shortFn(fn), nSeek)
			if _, isConst := ConstInt(arg); isConst {
				c.Ok("decoder-seek-forward", key, p.InstrPos(call), "constant offset (bounded rewind or skip)")
				continue
			}
			if ok, why := pr.ProveGE(arg, 0, call); ok {
				c.Ok("decoder-seek-forward", key, p.InstrPos(call), "offset proved non-negative")
			} else {
				c.Violate("decoder-seek-forward", key, p.InstrPos(call), "the decoder cursor is moved by an input-derived amount that may be negative ("+RenderN(arg, 3)+"; "+why+"): a crafted length moves the cursor back onto bytes already decoded, no read ever fails, and the decode loop repeats for ever while its result list grows until the process is out of memory")
			}
		}
	}
	c.Check(nSeek >= 4, "decoder-seek-forward", "decoder Seek sites found", "-", fmt.Sprint(nSeek), "fewer decoder Seek calls than the IPP look-ahead code is known to have")
}

type panicSite struct{ key, pos, msg string }

// goroutinePanicSites lists what can panic on the goroutine rooted at fn without a recover in between: explicit
// panics, unchecked type assertions, kill sites and index/slice/make operations the zone prover cannot discharge.
func goroutinePanicSites(p *Program, g *callgraph.Graph, fn *ssa.Function) (out []panicSite, nfns int) {
	reach := unprotectedReach(g, fn)
	nilled := nilledFields(p)
	var fns []*ssa.Function
	for f := range reach {
		fns = append(fns, f)
	}
	sort.Slice(fns, func(i, j int) bool { return fns[i].String() < fns[j].String() })
	for _, f := range fns {
		path := strings.Join(reach[f], " > ")
		if InRepo(f) {
			out = append(out, nilFieldUses(p, f, nilled)...)
			out = append(out, nilFuncListed(p, f)...)
		}
		for _, b := range f.Blocks {
			for _, in := range b.Instrs {
				switch x := in.(type) {
				case *ssa.Panic:
					if strings.Contains(Render(x.X), "blocking select matched no case") {
						continue // go/ssa's synthetic default of a blocking select; unreachable
					}
					out = append(out, panicSite{"panic in " + shortFn(f), p.InstrPos(x), "a goroutine started on behalf of a connection runs outside the per-connection recover and can reach this explicit panic via " + path + ": client input that gets here terminates the whole process"})
				case *ssa.TypeAssert:
					if !x.CommaOk && poolGetAlwaysOfType(p, x) {
						continue // pool.Get().(T) of a pool whose New and every Put supply a T
					}
					if !x.CommaOk {
						out = append(out, panicSite{"unchecked type assertion in " + shortFn(f), p.InstrPos(x), "unchecked type assertion " + RenderN(x, 2) + " in an unrecovered goroutine (" + path + ")"})
					}
				case ssa.CallInstruction:
					if k := killSite(x); k != "" {
						out = append(out, panicSite{k + " in " + shortFn(f), p.InstrPos(x), "an unrecovered goroutine can reach this " + k + " site via " + path})
					}
				}
			}
		}
		// implicit panics: unproven index/slice/make
		pr := zone.New(f)
		ord := 0
		for _, b := range f.Blocks {
			for _, in := range b.Instrs {
				switch in.(type) {
				case *ssa.IndexAddr, *ssa.Index, *ssa.Slice, *ssa.MakeSlice:
				default:
					continue
				}
				for _, o := range pr.Obligations(in) {
					ord++
					if ok, why := pr.Prove(o, in); !ok {
						out = append(out, panicSite{fmt.Sprintf("%s #%d %s", shortFn(f), ord, o.What), p.InstrPos(in), "index/slice not provably in range in an unrecovered goroutine (" + path + "): " + RenderN(in.(ssa.Value), 3) + " – " + why})
					}
				}
			}
		}
	}
	return out, len(fns)
}

// c01HeldAt: a Lock (or, for reads, RLock) of a mutex accepted by okMu dominates `at` in fn and is not released again
// before it. sharedOnly: only a read lock is held at a write.
func c01HeldAt(fn *ssa.Function, at ssa.Instruction, write bool, okMu func(ssa.Value) bool) (locked, sharedOnly bool) {
	for _, call := range Calls(fn) {
		f := call.Common().StaticCallee()
		if f == nil || !(f.Name() == "Lock" || f.Name() == "RLock") || !(RecvTypeName(f) == "Mutex" || RecvTypeName(f) == "RWMutex") || PkgOf(f) != "sync" {
			continue
		}
		if _, isDefer := call.(*ssa.Defer); isDefer {
			continue
		}
		if !call.Block().Dominates(at.Block()) || (call.Block() == at.Block() && instrIdx(call) > instrIdx(at)) {
			continue
		}
		if !okMu(call.Common().Args[0]) {
			continue
		}
		held := true
		// not unlocked again before the access (an Unlock call that dominates the access and is dominated by the Lock)
		for _, c2 := range Calls(fn) {
			f2 := c2.Common().StaticCallee()
			if _, isDefer := c2.(*ssa.Defer); isDefer || f2 == nil || !(f2.Name() == "Unlock" || f2.Name() == "RUnlock") {
				continue
			}
			if call.Block().Dominates(c2.Block()) && c2.Block().Dominates(at.Block()) && !(c2.Block() == at.Block() && instrIdx(c2) > instrIdx(at)) && !(c2.Block() == call.Block() && instrIdx(c2) < instrIdx(call)) {
				held = false
			}
		}
		if !held {
			continue
		}
		if f.Name() == "RLock" && write {
			sharedOnly = true // a read lock does not exclude the other holders of the read lock
			continue
		}
		locked = true
	}
	return
}

// c01CallersHold: every way fn gets to run is under such a lock: each static call site holds it (or its own callers
// do), and a closure handed to a function runs where that function calls its parameter.
func c01CallersHold(p *Program, fn *ssa.Function, write bool, okMu func(ssa.Value) bool, depth int, seen map[*ssa.Function]bool) bool {
	if depth > 3 || seen[fn] {
		return false
	}
	seen[fn] = true
	nsites := 0
	siteOK := func(g *ssa.Function, at ssa.Instruction) bool {
		if l, _ := c01HeldAt(g, at, write, okMu); l {
			return true
		}
		return c01CallersHold(p, g, write, okMu, depth+1, seen)
	}
	for _, g := range p.Funcs() {
		for _, b := range g.Blocks {
			for _, in := range b.Instrs {
				switch x := in.(type) {
				case ssa.CallInstruction:
					cc := x.Common()
					if cc.StaticCallee() == fn {
						if _, isMC := cc.Value.(*ssa.MakeClosure); isMC {
							// an immediately invoked closure: counted at its MakeClosure below
						}
						nsites++
						if _, isGo := x.(*ssa.Go); isGo {
							return false
						}
						if !siteOK(g, x) {
							return false
						}
					}
				}
				mc, ok := in.(*ssa.MakeClosure)
				if !ok || mc.Fn != ssa.Value(fn) {
					continue
				}
				// where does the closure value go?
				for _, ref := range *mc.Referrers() {
					ci, isCall := ref.(ssa.CallInstruction)
					if !isCall {
						return false // stored or returned: runs somewhere we do not see
					}
					cc := ci.Common()
					if cc.Value == ssa.Value(mc) {
						continue // invoked on the spot: already counted as a static call site
					}
					w := cc.StaticCallee()
					if w == nil || !InRepo(w) || w.Blocks == nil {
						return false
					}
					off := 0
					if cc.IsInvoke() {
						return false
					}
					for ai, a := range cc.Args {
						if a != ssa.Value(mc) || ai+off >= len(w.Params) {
							continue
						}
						prm := w.Params[ai+off]
						// every use of the parameter in w is a call under the lock
						for _, r2 := range *prm.Referrers() {
							c2, isC := r2.(ssa.CallInstruction)
							if !isC || c2.Common().Value != ssa.Value(prm) {
								return false
							}
							if _, isGo := c2.(*ssa.Go); isGo {
								return false
							}
							nsites++
							if !siteOK(w, c2) {
								return false
							}
						}
					}
				}
			}
		}
	}
	return nsites > 0
}

// poolGetAlwaysOfType: ta asserts the result of (*sync.Pool).Get on a package-level pool to T, the pool's New function
// returns a T on every path and every Put on that pool anywhere in the program stores a T: the assertion cannot fail.
func poolGetAlwaysOfType(p *Program, ta *ssa.TypeAssert) bool {
	call, ok := ta.X.(*ssa.Call)
	if !ok || !MethodIs(call.Call.StaticCallee(), "sync", "Pool", "Get") || len(call.Call.Args) != 1 {
		return false
	}
	g, ok := call.Call.Args[0].(*ssa.Global)
	if !ok {
		return false
	}
	want := ta.AssertedType
	okNew, okPuts := false, true
	for _, fn := range p.Funcs() {
		for _, b := range fn.Blocks {
			for _, in := range b.Instrs {
				switch x := in.(type) {
				case *ssa.Store:
					// pool.New = func() interface{} { return … } in the package initialiser
					fa, isFA := x.Addr.(*ssa.FieldAddr)
					if !isFA || fa.X != ssa.Value(g) || fieldNameOf(fa) != "New" {
						continue
					}
					var nf *ssa.Function
					switch v := x.Val.(type) {
					case *ssa.Function:
						nf = v
					case *ssa.MakeClosure:
						nf, _ = v.Fn.(*ssa.Function)
					}
					if nf == nil || nf.Blocks == nil {
						return false
					}
					okNew = len(Returns(nf)) > 0
					for _, r := range Returns(nf) {
						mi, isMI := RetVals(r)[0].(*ssa.MakeInterface)
						if !isMI || !types.Identical(mi.X.Type(), want) {
							okNew = false
						}
					}
				case ssa.CallInstruction:
					if MethodIs(x.Common().StaticCallee(), "sync", "Pool", "Put") && len(x.Common().Args) == 2 && x.Common().Args[0] == ssa.Value(g) {
						mi, isMI := x.Common().Args[1].(*ssa.MakeInterface)
						if !isMI || !types.Identical(mi.X.Type(), want) {
							okPuts = false
						}
					}
				}
			}
		}
	}
	return okNew && okPuts
}
