package rules

import (
	"fmt"

	"golang.org/x/tools/go/ssa"

	. "htcheck/internal/core"
)

// c16SingleFrameWriter (rule single-frame-writer): conn2.send writes one frame to the agent link with several writes
// and nothing in it excludes a second caller. The frames of one session stay whole only because a single goroutine –
// the one that drains the session's out channel – calls it once the session runs (the handshake reply is sent before
// that goroutine exists). A send from anywhere else, e.g. from the reply callback of a datagram connection that a
// service goroutine calls, interleaves its bytes with a frame the writer is in the middle of.
func c16SingleFrameWriter(c *Ctx) {
	const rule = "single-frame-writer"
	c.Explanation += " conn2.send is called only before the session's goroutines exist and from the one goroutine that drains the out channel."
	p := c.P
	send := p.Method(agentRel, "conn2", "send")
	serv := p.Method(agentRel, "agentListener", "serv")
	if !c.Anchor(send != nil && serv != nil, rule, "(*conn2).send and (*agentListener).serv") {
		return
	}
	// goroutines started in serv
	goFns := map[*ssa.Function]*ssa.Go{}
	var gos []*ssa.Go
	for _, b := range serv.Blocks {
		for _, in := range b.Instrs {
			if g, ok := in.(*ssa.Go); ok {
				gos = append(gos, g)
				if mc, ok := g.Call.Value.(*ssa.MakeClosure); ok {
					goFns[mc.Fn.(*ssa.Function)] = g
				} else if f := g.Call.StaticCallee(); f != nil {
					goFns[f] = g
				}
			}
		}
	}
	receivesFromChan := func(fn *ssa.Function) bool {
		for _, b := range fn.Blocks {
			for _, in := range b.Instrs {
				switch x := in.(type) {
				case *ssa.Select:
					for _, st := range x.States {
						if st.Send == nil {
							return true
						}
					}
				case *ssa.UnOp:
					if x.Op.String() == "<-" {
						return true
					}
				case *ssa.Range, *ssa.Next:
					return true
				}
			}
		}
		return false
	}
	writers := map[*ssa.Function]bool{}
	n := 0
	for _, fn := range p.FuncsIn(agentRel) {
		for _, call := range Calls(fn) {
			if call.Common().StaticCallee() != send {
				continue
			}
			n++
			key := "send called in " + shortFn(fn)
			switch {
			case fn == serv:
				// before any goroutine of the session exists
				after := false
				for _, g := range gos {
					if InstrReachFrom(serv, g, nil, func(ssa.Instruction) bool { return false })(call) {
						after = true
					}
				}
				c.Check(!after, rule, key, p.InstrPos(call), "before the session's goroutines are started", "the session loop itself writes a frame while the writer goroutine is running: the two frames interleave on the agent link")
			case goFns[fn] != nil && receivesFromChan(fn):
				writers[fn] = true
				c.Ok(rule, key, p.InstrPos(call), "the goroutine that drains the session's out channel")
			default:
				c.Violate(rule, key, p.InstrPos(call), "a frame is written to the agent link from "+shortFn(fn)+", which is not the session's writer goroutine: conn2.send writes a frame in several pieces and does not exclude a second caller, so this frame and one the writer is sending at that moment interleave and the agent decodes garbage (everything else hands its message to the writer over the out channel)")
			}
		}
	}
	c.Check(len(writers) == 1, rule, "writer goroutines of a session", p.Pos(serv.Pos()), "exactly one", fmt.Sprintf("%d goroutines of one session write frames", len(writers)))
	c.Floor(rule, 3, "handshake reply, writer goroutine, writer count")
}
