package rules

import (
	"fmt"
	"go/token"
	"go/types"
	"strings"

	"golang.org/x/tools/go/ssa"

	. "htcheck/internal/core"
)

func isCandList(t types.Type) bool {
	sl, ok := t.Underlying().(*types.Slice)
	if !ok {
		return false
	}
	pt, ok := sl.Elem().Underlying().(*types.Pointer)
	if !ok {
		return false
	}
	n := NamedOf(pt.Elem())
	return n != nil && n.Obj().Name() == "ServiceMap"
}

// c08Candidates: the services considered for a connection are exactly the value of the port-table entry whose key
// compareAddr matches against the connection's LOCAL address (protocol, port and address). The candidate list may be
// computed in findService itself or in a helper it calls with conn.LocalAddr(); a list obtained any other way (a cache
// keyed by a string, a lookup by port number) is reported, because nothing then ties it to compareAddr's three-way match.
func c08Candidates(c *Ctx, rule string, find *ssa.Function) {
	p := c.P
	conn := handleConnLike(find)
	if !c.Anchor(conn != nil, rule, "findService's connection parameter") {
		return
	}
	type ctx struct {
		fn    *ssa.Function
		local func(v ssa.Value) bool // v is the connection's local address in fn
	}
	isLocalInFind := func(v ssa.Value) bool {
		call, ok := c15Root(v).(*ssa.Call)
		return ok && call.Call.IsInvoke() && call.Call.Method.Name() == "LocalAddr" && c15Root(call.Call.Value) == ssa.Value(conn)
	}
	nCmp := 0
	var good func(cx ctx, v ssa.Value, conds []Cond, depth int) string
	good = func(cx ctx, v ssa.Value, conds []Cond, depth int) string {
		if depth > 6 {
			return "candidate list too deeply nested to trace"
		}
		if IsNilConst(v) {
			return ""
		}
		switch x := v.(type) {
		case *ssa.Phi:
			for _, l := range phiLeaves(x) {
				if l.v == ssa.Value(x) {
					continue
				}
				if why := good(cx, l.v, append(DomCondsBlock(l.pred), EdgeConds(l.pred, l.succ)...), depth+1); why != "" {
					return why
				}
			}
			return ""
		case *ssa.Extract:
			// value of `for k, sc := range hc.ports`
			if nx, ok := x.Tuple.(*ssa.Next); ok && x.Index == 2 {
				rg, _ := nx.Iter.(*ssa.Range)
				if rg == nil {
					return "not a range over the port table"
				}
				if _, isPorts := isFieldLoadNamed(rg.X, portTableField(c.P)); !isPorts {
					return "the candidate list is taken from a range over " + RenderN(rg.X, 3) + ", not over the port table"
				}
				for _, dc := range conds {
					call, pol := condCall(dc)
					if call == nil || !pol || !isCompareAddr(c.P, call.Call.StaticCallee()) {
						continue
					}
					a := call.Call.Args
					keyOK := func(k ssa.Value) bool {
						e, ok := k.(*ssa.Extract)
						return ok && e.Tuple == x.Tuple && e.Index == 1
					}
					if (keyOK(a[0]) && cx.local(a[1])) || (keyOK(a[1]) && cx.local(a[0])) {
						nCmp++
						return ""
					}
					return "compareAddr is not applied to this entry's key and the connection's local address: " + Render(a[0]) + ", " + Render(a[1])
				}
				return "a port-table entry becomes the candidate list without compareAddr(key, conn.LocalAddr()) having accepted its key"
			}
		case *ssa.Call:
			f := x.Call.StaticCallee()
			if f != nil && InRepo(f) && f.Blocks != nil && isCandList(x.Type()) {
				// helper: its address parameter must receive the local address
				var lp *ssa.Parameter
				for i, a := range x.Call.Args {
					if cx.local(a) && i < len(f.Params) {
						lp = f.Params[i]
					}
				}
				if lp == nil {
					return "the helper " + FuncShort(f) + " is not given the connection's local address"
				}
				sub := ctx{f, func(v ssa.Value) bool { return c15Root(v) == ssa.Value(lp) }}
				for _, r := range Returns(f) {
					if why := good(sub, RetVals(r)[0], DomCondsBlock(r.Block()), depth+1); why != "" {
						return "in " + FuncShort(f) + ": " + why
					}
				}
				return ""
			}
		}
		return "the candidate list is " + RenderN(v, 3) + ", which is not the port-table entry selected by compareAddr for this connection's protocol, port and address"
	}
	// every use of a candidate list in findService
	seen := map[ssa.Value]bool{}
	n := 0
	for _, b := range find.Blocks {
		for _, in := range b.Instrs {
			var v ssa.Value
			switch x := in.(type) {
			case *ssa.Range:
				v = x.X
			case *ssa.IndexAddr:
				v = x.X
			case *ssa.Index:
				v = x.X
			case *ssa.Call:
				if bi, ok := x.Call.Value.(*ssa.Builtin); ok && bi.Name() == "len" {
					v = x.Call.Args[0]
				}
			}
			if v == nil || !isCandList(v.Type()) || seen[v] {
				continue
			}
			seen[v] = true
			n++
			why := good(ctx{find, isLocalInFind}, v, DomConds(in), 0)
			c.Check(why == "", rule, "candidate list used in findService #"+itoa(n), p.InstrPos(in), "the port-table entry whose key compareAddr matched against conn.LocalAddr()", why)
		}
	}
	c.Check(n >= 1 && nCmp >= 1, rule, "findService selects candidates with compareAddr", p.Pos(find.Pos()), "", "no candidate list selected by compareAddr(key, conn.LocalAddr()) found in the selector")
	_ = token.ADD
}

func itoa(n int) string {
	const d = "0123456789"
	if n < 10 {
		return d[n : n+1]
	}
	return itoa(n/10) + d[n%10:n%10+1]
}

// condCall: the call a branch condition tests, with the polarity under which it is known to have returned true.
func condCall(dc Cond) (*ssa.Call, bool) {
	v, pol := dc.V, dc.Pol
	for i := 0; i < 3; i++ {
		if u, ok := v.(*ssa.UnOp); ok && u.Op == token.NOT {
			v, pol = u.X, !pol
			continue
		}
		break
	}
	call, _ := v.(*ssa.Call)
	return call, pol
}

func handleConnLike(fn *ssa.Function) *ssa.Parameter {
	for _, q := range fn.Params {
		if n, ok := q.Type().(*types.Named); ok && n.Obj().Name() == "Conn" && n.Obj().Pkg() != nil && n.Obj().Pkg().Path() == "net" {
			return q
		}
	}
	return nil
}

// c08ReadKeepsRemainder: a connection type that serves Read from a buffer it holds must drop exactly the bytes it
// copied to the caller. The selector peeks with a fixed 1024-byte buffer; if a Read with a short buffer discards the rest
// (or a re-slice by another count), the service chosen afterwards never sees the bytes beyond the peek.
func c08ReadKeepsRemainder(c *Ctx) {
	p := c.P
	n := 0
	for _, nt := range p.NamedTypes() {
		if nt.Obj().Pkg() == nil {
			continue
		}
		rd := p.Method(RelPkg(nt.Obj().Pkg().Path()), nt.Obj().Name(), "Read")
		if rd == nil || rd.Blocks == nil || len(rd.Params) != 2 || !HasMethod(types.NewPointer(nt), "RemoteAddr") {
			continue
		}
		recv, buf := rd.Params[0], rd.Params[1]
		// a bytes.Buffer held by the receiver serves the read: buffer.Read(b) drops exactly what it copies
		for _, call := range Calls(rd) {
			if cv, ok := call.(*ssa.Call); ok && isBytesBufferMethod(call, "Read") && len(cv.Call.Args) == 2 && cv.Call.Args[1] == ssa.Value(buf) {
				if _, okF := recvFieldIdx(cv.Call.Args[0], rd); okF {
					n++
					c.Ok("read-drops-only-copied", fmt.Sprintf("%s.Read serves a bytes.Buffer", TypeKey(nt)), p.InstrPos(cv), "bytes.Buffer.Read drops exactly the bytes it copied")
				}
			}
		}
		// copy(b…, recv.F…)
		for _, call := range Calls(rd) {
			cv, ok := call.(*ssa.Call)
			if !ok {
				continue
			}
			bi, ok := cv.Call.Value.(*ssa.Builtin)
			if !ok || bi.Name() != "copy" || bufBase(cv.Call.Args[0]) != ssa.Value(buf) {
				continue
			}
			src := cv.Call.Args[1]
			for {
				if sl, ok := src.(*ssa.Slice); ok {
					src = sl.X
					continue
				}
				break
			}
			ld, ok := isLoad(src)
			if !ok {
				continue
			}
			fa, ok := ld.X.(*ssa.FieldAddr)
			if !ok || c15Root(fa.X) != ssa.Value(recv) {
				continue
			}
			if _, isSlice := ld.Type().Underlying().(*types.Slice); !isSlice {
				continue
			}
			n++
			key := fmt.Sprintf("%s.Read serves %s", TypeKey(nt), fieldNameOf(fa))
			// the stores to that field that can follow this copy
			reach := InstrReachFrom(rd, cv, nil, nil)
			bad, stores := "", 0
			for _, b := range rd.Blocks {
				for _, in := range b.Instrs {
					st, ok := in.(*ssa.Store)
					if !ok || !reach(st) {
						continue
					}
					fa2, ok := st.Addr.(*ssa.FieldAddr)
					if !ok || fa2.Field != fa.Field || c15Root(fa2.X) != ssa.Value(recv) {
						continue
					}
					stores++
					sl, ok := st.Val.(*ssa.Slice)
					okS := ok && sl.High == nil && sl.Low == ssa.Value(cv)
					if okS {
						l2, isL := isLoad(sl.X)
						fa3, isF := (ssa.Value)(nil), false
						if isL {
							var f3 *ssa.FieldAddr
							f3, isF = l2.X.(*ssa.FieldAddr)
							if isF {
								fa3 = f3
								okS = f3.Field == fa.Field && c15Root(f3.X) == ssa.Value(recv)
							}
						}
						_ = fa3
						if !isL || !isF {
							okS = false
						}
					}
					if !okS {
						bad = "after copying n bytes to the caller the buffer becomes " + RenderN(st.Val, 3) + " (at " + p.InstrPos(st) + ") instead of " + fieldNameOf(fa) + "[n:]"
					}
				}
			}
			if stores == 0 {
				bad = "the buffer is never advanced after the copy"
				// the slice kept whole with a read offset: copy(b, recv.F[recv.off:]) followed by recv.off += copied
				if sl, isSl := cv.Call.Args[1].(*ssa.Slice); isSl && sl.High == nil && sl.Low != nil {
					if oi, okO := recvFieldIdx(sl.Low, rd); okO {
						for _, b := range rd.Blocks {
							for _, in := range b.Instrs {
								st, ok := in.(*ssa.Store)
								if !ok || !reach(st) {
									continue
								}
								if si, okS := recvFieldIdx(st.Addr, rd); !okS || si != oi {
									continue
								}
								bo, isBo := st.Val.(*ssa.BinOp)
								if isBo && bo.Op == token.ADD && ((bo.Y == ssa.Value(cv) && isRecvLoad(bo.X, rd, oi)) || (bo.X == ssa.Value(cv) && isRecvLoad(bo.Y, rd, oi))) {
									bad = ""
								} else {
									bad = "after copying n bytes to the caller the read offset becomes " + RenderN(st.Val, 3) + " (at " + p.InstrPos(st) + ") instead of offset+n"
								}
							}
						}
					}
				}
			}
			c.Check(bad == "", "read-drops-only-copied", key, p.InstrPos(cv), "the buffer is advanced by exactly the copied count", bad+": bytes that did not fit into the caller's buffer (the selector peeks 1024 bytes) are lost or replayed, so the chosen service does not read the client's stream intact")
		}
	}
	c.Check(n >= 2, "read-drops-only-copied", "buffer-serving Read methods found", "-", fmt.Sprint(n), "expected the datagram pseudo-connection and the peek connection to serve Read from a held buffer")
}

// isCompareAddr: f is the server's address-compatibility predicate (found by name, or – after a rename – by its signature).
func isCompareAddr(p *Program, f *ssa.Function) bool {
	return f != nil && f == p.Func("server", "compareAddr")
}

// c08ListenerOwnVariables: a connection's identity (local address, peer address, its socket) is fixed when the
// listener creates it. Goroutines that listeners and the server start per socket/port must not capture a variable
// the starting loop assigns again: under the module's language version all iterations share one variable, so the
// datagrams/connections of every earlier socket would be stamped with the last port's address and findService would
// hand them to another port's services.
func c08ListenerOwnVariables(c *Ctx) {
	c.Explanation += " Goroutines started in loops of the listeners/server capture no variable that is assigned again after the go statement without passing its declaration (shared loop variable under the module language version)."
	p := c.P
	n := 0
	for _, fn := range p.FuncsIn("listener", "server") {
		hits := lateRebinds(fn)
		byGo := map[*ssa.Go]bool{}
		for _, h := range hits {
			byGo[h.site] = true
			name := h.alloc.Comment
			c.Violate("goroutine-own-variables", shortFn(fn)+" go#"+fmt.Sprint(goOrdinal(fn, h.site))+" captures "+name, p.InstrPos(h.site), "the goroutine started here reads `"+name+"` ("+p.InstrPos(h.read)+"), a variable the enclosing function assigns again after the go statement ("+p.InstrPos(h.store)+"): go.mod's language version gives a loop one variable for all iterations, so this goroutine sees a later iteration's value – a datagram or connection of this socket is labelled with another port's address and dispatched to that port's services")
		}
		for _, b := range fn.Blocks {
			for _, in := range b.Instrs {
				if gi, ok := in.(*ssa.Go); ok {
					if !byGo[gi] && InLoop(b) {
						n++
						detail := "arguments are evaluated at the go statement"
						if _, isMC := gi.Call.Value.(*ssa.MakeClosure); isMC {
							detail = "captures no variable that is assigned again after the go statement"
						}
						c.Ok("goroutine-own-variables", shortFn(fn)+" go#"+fmt.Sprint(goOrdinal(fn, gi)), p.InstrPos(gi), detail)
					}
				}
			}
		}
	}
	c.Floor("goroutine-own-variables", 2, "per-socket goroutines of the socket listener (tcp accept, udp receive)")
}

// c08DetectorPresence: the selector tells "has no payload detector" from "has one" by asserting the configured service
// value to services.CanHandlerer. That only means what the property says if the value is the service itself:
// (a) the registry stores the registered constructor, not a closure around it; (b) the dispatcher's service table holds
// what the constructor returned; (c) no type that wraps a Servicer (embeds the interface) has a CanHandle method of its
// own – such a wrapper has a detector whatever it wraps, so a detector-less service is no longer taken without peeking
// and is skipped or chosen by the wrapper's answer instead of its position.
func c08DetectorPresence(c *Ctx) {
	p := c.P
	const rule = "detector-presence-preserved"
	servicer := p.Iface("services", "Servicer")
	canH := p.Iface("services", "CanHandlerer")
	if !c.Anchor(servicer != nil && canH != nil, rule, "services.Servicer and services.CanHandlerer") {
		return
	}
	// (a) stores into the registry map
	na := 0
	for _, fn := range p.FuncsIn("services") {
		if PkgOf(fn) != ModPath+"/services" {
			continue
		}
		for _, b := range fn.Blocks {
			for _, in := range b.Instrs {
				mu, ok := in.(*ssa.MapUpdate)
				if !ok {
					continue
				}
				ld, ok := mu.Map.(*ssa.UnOp)
				if !ok {
					continue
				}
				g, ok := ld.X.(*ssa.Global)
				if !ok {
					continue
				}
				mt, ok := g.Type().(*types.Pointer).Elem().Underlying().(*types.Map)
				if !ok {
					continue
				}
				sig, ok := mt.Elem().Underlying().(*types.Signature)
				if !ok || sig.Results().Len() != 1 || !types.Identical(sig.Results().At(0).Type().Underlying(), servicer) {
					continue
				}
				na++
				v := Unwrap(mu.Value)
				_, isParam := v.(*ssa.Parameter)
				_, isFunc := v.(*ssa.Function)
				if mc, isMC := v.(*ssa.MakeClosure); isMC {
					// a closure that returns exactly what the registered constructor returns
					if cf, _ := mc.Fn.(*ssa.Function); cf != nil && cf.Blocks != nil {
						all := len(Returns(cf)) > 0
						for _, r := range Returns(cf) {
							for _, lf := range leaves(RetVals(r)[0]) {
								call, isCall := lf.(*ssa.Call)
								if !isCall || call.Call.IsInvoke() {
									all = false
									continue
								}
								fv, isFV := Deref(call.Call.Value).(*ssa.FreeVar)
								if !isFV {
									all = false
									continue
								}
								b := freeVarBinding(fv)
								if _, bp := Unwrap(Deref(b)).(*ssa.Parameter); b == nil || !bp {
									all = false
								}
							}
						}
						if all {
							isFunc = true
						}
					}
				}
				c.Check(isParam || isFunc, rule, shortFn(fn)+" stores into "+g.Name(), p.InstrPos(mu), "the registry keeps the registered constructor itself",
					"the service registry stores "+RenderN(v, 3)+" instead of the registered constructor: what services.Get hands out is no longer the service's own value, so its optional CanHandle (or the absence of one) is hidden behind whatever this wrapper's method set says")
			}
		}
	}
	c.Check(na >= 1, rule, "registry stores found", "-", fmt.Sprint(na), "no store into the service registry map found")
	// (b) the dispatcher's table: ServiceMap.Service = <constructor obtained from services.Get>(options...)
	smT := p.Type("server", "ServiceMap")
	nb := 0
	if c.Anchor(smT != nil, rule, "server.ServiceMap") {
		for _, fn := range p.FuncsIn("server") {
			for _, b := range fn.Blocks {
				for _, in := range b.Instrs {
					st, ok := in.(*ssa.Store)
					if !ok {
						continue
					}
					fa, ok := st.Addr.(*ssa.FieldAddr)
					if !ok || NamedOf(fa.X.Type()) != smT || !types.Identical(fa.Type().(*types.Pointer).Elem().Underlying(), servicer) {
						continue
					}
					if strings.HasSuffix(p.Fset.Position(fn.Pos()).Filename, "_test.go") {
						continue
					}
					nb++
					good := true
					why := ""
					for _, lf := range leaves(st.Val) {
						call, isCall := lf.(*ssa.Call)
						if !isCall || call.Call.IsInvoke() {
							good, why = false, RenderN(lf, 3)
							continue
						}
						okSrc := false
						var fromRegistry func(v ssa.Value, fn *ssa.Function, depth int) bool
						fromRegistry = func(v ssa.Value, fn *ssa.Function, depth int) bool {
							lfs := leaves(v)
							if len(lfs) == 0 {
								return false
							}
							for _, s2 := range lfs {
								if ex, isEx := s2.(*ssa.Extract); isEx && ex.Index == 0 {
									if gc, isC := ex.Tuple.(*ssa.Call); isC && FuncIs(gc.Call.StaticCallee(), ModPath+"/services", "Get") {
										continue
									}
								}
								if f, isF := s2.(*ssa.Function); isF && InRepo(f) && PkgOf(f) == ModPath+"/services" {
									continue
								}
								// a helper that is handed the constructor: judged at every call site
								if pr, isP := s2.(*ssa.Parameter); isP && depth < 2 {
									idx := paramIdx(pr)
									nsites := 0
									all := true
									for _, g := range p.Funcs() {
										for _, cl := range Calls(g) {
											if cl.Common().StaticCallee() != fn || cl.Common().IsInvoke() {
												continue
											}
											nsites++
											if idx < 0 || idx >= len(cl.Common().Args) || !fromRegistry(cl.Common().Args[idx], g, depth+1) {
												all = false
											}
										}
									}
									if nsites > 0 && all {
										continue
									}
								}
								return false
							}
							return true
						}
						okSrc = fromRegistry(call.Call.Value, fn, 0)
						if !okSrc {
							good, why = false, "the result of "+RenderN(call.Call.Value, 3)
						}
					}
					c.Check(good, rule, shortFn(fn)+" fills ServiceMap.Service", p.InstrPos(st), "the value the registered constructor returned",
						"the dispatcher's service table holds "+why+" rather than what the registered constructor returned: the selector's CanHandlerer assertion no longer tells whether the configured service has a detector")
				}
			}
		}
		c.Check(nb >= 1, rule, "service table stores found", "-", fmt.Sprint(nb), "no store into ServiceMap.Service found")
	}
	// (c) wrapper types
	nc := 0
	for _, n := range p.NamedTypes() {
		st, ok := n.Underlying().(*types.Struct)
		if !ok {
			continue
		}
		wraps := false
		for i := 0; i < st.NumFields(); i++ {
			f := st.Field(i)
			if it, isI := f.Type().Underlying().(*types.Interface); isI && f.Embedded() && types.Implements(f.Type(), servicer) && it.NumMethods() > 0 {
				wraps = true
			}
		}
		if !wraps {
			continue
		}
		nc++
		c.Check(!Implements(n, canH), rule, "wrapper type "+TypeKey(n), p.Pos(n.Obj().Pos()), "a Servicer wrapper without a CanHandle of its own",
			"type "+TypeKey(n)+" wraps a Servicer (embedded interface) and has a CanHandle method: it has a payload detector whatever it wraps, so a wrapped service without one is no longer selected as \"has no detector\" (without peeking, by its position) but by the wrapper's answer")
	}
	c.Ok(rule, "wrapper types scanned", "-", fmt.Sprintf("%d struct types embed a Servicer interface", nc))
}

func isRecvLoad(v ssa.Value, fn *ssa.Function, idx int) bool {
	if _, ok := v.(*ssa.UnOp); !ok {
		return false
	}
	i, ok := recvFieldIdx(v, fn)
	return ok && i == idx
}
