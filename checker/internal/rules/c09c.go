package rules

import (
	"fmt"
	"go/token"
	"go/types"
	"sort"
	"strings"

	"golang.org/x/tools/go/ssa"

	. "htcheck/internal/core"
)

// c09PeekUnderDeadline: the dispatcher itself reads from the accepted connection before a service is chosen (the Peek of
// the selector). That read must be bounded like every later one: the connection under the peeking wrapper is the
// idle-deadline wrapper (a value produced by a constructor of server.timeoutConn), or a deadline was set on the
// connection on every path to the read. Otherwise a client that connects to a shared port and stays silent holds its
// handler goroutine and descriptor for as long as it likes.
func c09PeekUnderDeadline(c *Ctx, find *ssa.Function) {
	p := c.P
	toT := p.Type("server", "timeoutConn")
	peekT := p.Type("server", "peekConnection")
	peek := p.Method("server", "peekConnection", "Peek")
	if !c.Anchor(toT != nil && peekT != nil && peek != nil, "selector-read-bounded", "server.timeoutConn, server.peekConnection.Peek") {
		return
	}
	// constructors of the idle-deadline wrapper: in-repo functions all of whose returns are a fresh *timeoutConn
	isCtor := func(f *ssa.Function) bool {
		if f == nil || !InRepo(f) || f.Blocks == nil || f.Signature.Results().Len() != 1 {
			return false
		}
		rets := Returns(f)
		if len(rets) == 0 {
			return false
		}
		for _, r := range rets {
			v := Unwrap(RetVals(r)[0])
			if NamedOf(v.Type()) != toT {
				return false
			}
		}
		return true
	}
	var wrapped func(v ssa.Value, fn *ssa.Function, depth int) (bool, string)
	wrapped = func(v ssa.Value, fn *ssa.Function, depth int) (bool, string) {
		for _, lf := range leaves(v) {
			lf = Unwrap(lf)
			if IsNilConst(lf) {
				continue
			}
			if NamedOf(lf.Type()) == toT {
				continue
			}
			switch x := lf.(type) {
			case *ssa.Call:
				if isCtor(x.Call.StaticCallee()) {
					continue
				}
				// the peeking wrapper (or another in-repo wrapper constructor) around a bounded connection
				if hf := x.Call.StaticCallee(); hf != nil && InRepo(hf) && NamedOf(x.Type()) == peekT && len(x.Call.Args) >= 1 {
					if ok, why := wrapped(x.Call.Args[0], fn, depth); !ok {
						return false, why
					}
					continue
				}
				return false, "result of " + Render(x)
			case *ssa.Parameter:
				if depth >= 2 {
					return false, "parameter " + x.Name() + " (call depth)"
				}
				idx := -1
				for i, q := range fn.Params {
					if q == x {
						idx = i
					}
				}
				var sites []ssa.CallInstruction
				for _, g := range p.Funcs() {
					for _, cl := range Calls(g) {
						if cl.Common().StaticCallee() == fn {
							sites = append(sites, cl)
						}
					}
				}
				if idx < 0 || len(sites) == 0 {
					return false, "parameter " + x.Name() + " with no visible call site"
				}
				for _, s := range sites {
					cc := s.Common()
					if cc.StaticCallee() != fn || idx >= len(cc.Args) {
						return false, "parameter " + x.Name() + " at an unresolved call site"
					}
					// a deadline set on the argument before the call bounds it as well
					if deadlineBefore(s, cc.Args[idx]) {
						continue
					}
					if ok, why := wrapped(cc.Args[idx], s.Parent(), depth+1); !ok {
						return false, "the accepted connection as passed by " + shortFn(s.Parent()) + " (" + why + ")"
					}
				}
				continue
			}
			return false, RenderN(lf, 3)
		}
		return true, ""
	}
	n := 0
	// the selector and the helpers of its package it calls synchronously (a helper that wraps and peeks)
	scope := []*ssa.Function{find}
	seenFn := map[*ssa.Function]bool{find: true}
	for i := 0; i < len(scope) && i < 20; i++ {
		for _, call := range Calls(scope[i]) {
			hf := call.Common().StaticCallee()
			if _, isCall := call.(*ssa.Call); !isCall || hf == nil || seenFn[hf] || hf == peek || !InRepo(hf) || hf.Blocks == nil || PkgOf(hf) != PkgOf(find) {
				continue
			}
			if r := hf.Signature.Recv(); r != nil && (NamedOf(r.Type()) == peekT || NamedOf(r.Type()) == toT) {
				continue
			}
			seenFn[hf] = true
			scope = append(scope, hf)
		}
	}
	var sites []ssa.CallInstruction
	for _, fn := range scope {
		sites = append(sites, Calls(fn)...)
	}
	for _, call := range sites {
		find := call.Parent()
		cc := call.Common()
		isPeek := cc.StaticCallee() == peek
		isRead := cc.IsInvoke() && cc.Method.Name() == "Read" && types.TypeString(cc.Value.Type(), nil) == "net.Conn"
		if !isPeek && !isRead {
			continue
		}
		n++
		key := fmt.Sprintf("%s read[%d]", shortFn(find), n-1)
		recv := cc.Value
		if isPeek {
			recv = cc.Args[0]
		}
		// the connection under the peeking wrapper
		var under []ssa.Value
		bad := ""
		for _, lf := range leaves(recv) {
			lf = Unwrap(lf)
			if IsNilConst(lf) {
				continue
			}
			if NamedOf(lf.Type()) == peekT {
				if cl, ok := lf.(*ssa.Call); ok && len(cl.Call.Args) >= 1 && cl.Call.StaticCallee() != nil && InRepo(cl.Call.StaticCallee()) {
					under = append(under, cl.Call.Args[0])
					continue
				}
				if al, ok := lf.(*ssa.Alloc); ok {
					got := false
					for _, ref := range *al.Referrers() {
						fa, isFA := ref.(*ssa.FieldAddr)
						if !isFA || types.TypeString(fa.Type().Underlying().(*types.Pointer).Elem(), nil) != "net.Conn" {
							continue
						}
						for _, r2 := range *fa.Referrers() {
							if st, isSt := r2.(*ssa.Store); isSt && st.Addr == ssa.Value(fa) {
								under = append(under, st.Val)
								got = true
							}
						}
					}
					if got {
						continue
					}
				}
				bad = "peeking connection of unknown origin: " + RenderN(lf, 3)
				continue
			}
			under = append(under, lf)
		}
		if bad != "" {
			c.Undecided("selector-read-bounded", key, p.InstrPos(call), bad)
			continue
		}
		ok, why := true, ""
		for _, u := range under {
			if deadlineBefore(call, u) {
				continue
			}
			if o, w := wrapped(u, find, 0); !o {
				ok, why = false, w
			}
		}
		c.Check(ok, "selector-read-bounded", key, p.InstrPos(call), "the selector's own read of the client's first bytes goes through the idle-deadline wrapper (or follows a deadline call)",
			"the selector waits for the client's first bytes on a connection without the idle deadline ("+why+"): a client that connects to a shared port and sends nothing keeps its handler goroutine and descriptor, the wrapper the dispatcher adds later only covers the service's reads")
	}
	c.Floor("selector-read-bounded", 1, "the Peek of findService")
}

// deadlineBefore: a SetDeadline/SetReadDeadline call on v (same value or same leaves) dominates the instruction.
func deadlineBefore(at ssa.Instruction, v ssa.Value) bool {
	fn := at.Parent()
	if fn == nil {
		return false
	}
	want := map[ssa.Value]bool{}
	for _, lf := range leaves(v) {
		want[Unwrap(lf)] = true
	}
	for _, call := range Calls(fn) {
		cc := call.Common()
		if !cc.IsInvoke() || (cc.Method.Name() != "SetDeadline" && cc.Method.Name() != "SetReadDeadline") {
			continue
		}
		all := true
		for _, lf := range leaves(cc.Value) {
			if !want[Unwrap(lf)] {
				all = false
			}
		}
		if !all {
			continue
		}
		if a, ok := cc.Args[0].(*ssa.Const); ok && a.Value == nil {
			continue // zero time: clears the deadline
		}
		if call.Block() == at.Block() {
			for _, in := range call.Block().Instrs {
				if in == call {
					return true
				}
				if in == at {
					break
				}
			}
			continue
		}
		if call.Block().Dominates(at.Block()) {
			return true
		}
	}
	return false
}

// c09LibraryQueuesDrained: a loop that takes items from a queue a library fills on the connection's reader goroutine
// (x/crypto/ssh's channel and request queues, bounded at 16) must keep taking them: its body may not wait for the peer
// inline (a nested loop that reads, receives or copies, directly or in a function called synchronously). While the body
// waits, the items that arrive meanwhile fill the queue; the library's reader then blocks on the queue and sees neither
// data, the client's close nor the idle deadline, and the handler never returns.
func c09LibraryQueuesDrained(c *Ctx, svcs []Service, listed map[string]bool) {
	p := c.P
	waitsForPeer := func(cc *ssa.CallCommon) string {
		if cc.IsInvoke() {
			// Read(p []byte) (int, error) of any reader, Accept of a listener
			sig, _ := cc.Method.Type().(*types.Signature)
			switch cc.Method.Name() {
			case "Read":
				if sig != nil && sig.Params().Len() == 1 && types.TypeString(sig.Params().At(0).Type(), nil) == "[]byte" {
					return "Read"
				}
			case "Accept":
				return "Accept"
			}
			return ""
		}
		f := cc.StaticCallee()
		if f == nil || InRepo(f) {
			return "" // in-repo callees are looked into
		}
		switch f.Name() {
		case "Read", "ReadLine", "ReadString", "ReadBytes", "ReadByte", "ReadRune", "ReadFull", "ReadAll", "ReadAtLeast", "Copy", "CopyN", "CopyBuffer", "Accept", "ReadPassword", "Scan":
			return f.Name()
		}
		return ""
	}
	// blocksIn: a loop among the given blocks (or the whole function) that waits for the peer
	var waitingLoop func(fn *ssa.Function, within map[*ssa.BasicBlock]bool, skip *Loop, depth int, seen map[*ssa.Function]bool) string
	waitingLoop = func(fn *ssa.Function, within map[*ssa.BasicBlock]bool, skip *Loop, depth int, seen map[*ssa.Function]bool) string {
		// (a) nested loops
		for _, l := range Loops(fn) {
			if skip != nil && l.Header == skip.Header {
				continue
			}
			if within != nil && !within[l.Header] {
				continue
			}
			for b := range l.Blocks {
				for _, in := range b.Instrs {
					switch x := in.(type) {
					case *ssa.UnOp:
						if x.Op == token.ARROW {
							return "a nested loop at " + p.Pos(l.Header.Instrs[0].Pos()) + " receives from " + RenderN(x.X, 2)
						}
					case *ssa.Select:
						if x.Blocking {
							return "a nested loop at " + p.InstrPos(x) + " waits in a select"
						}
					case *ssa.Call:
						if w := waitsForPeer(&x.Call); w != "" {
							return "a nested loop calls " + w + " at " + p.InstrPos(x)
						}
					}
				}
			}
		}
		// (b) synchronous calls of in-repo functions/closures that contain such a loop (or wait themselves inside our loop)
		if depth >= 3 {
			return ""
		}
		for _, b := range fn.Blocks {
			if within != nil && !within[b] {
				continue
			}
			for _, in := range b.Instrs {
				call, ok := in.(*ssa.Call)
				if !ok {
					continue
				}
				var hf *ssa.Function
				if mc, isMC := call.Call.Value.(*ssa.MakeClosure); isMC {
					hf, _ = mc.Fn.(*ssa.Function)
				} else {
					hf = call.Call.StaticCallee()
				}
				if hf == nil || !InRepo(hf) || hf.Blocks == nil || seen[hf] {
					// a library call that copies or reads until the peer is done
					if w := waitsForPeer(&call.Call); w == "Copy" || w == "CopyN" || w == "CopyBuffer" || w == "ReadAll" {
						return "calls " + w + " at " + p.InstrPos(call)
					}
					continue
				}
				seen[hf] = true
				if w := waitingLoop(hf, nil, nil, depth+1, seen); w != "" {
					return "calls " + shortFn(hf) + " synchronously at " + p.InstrPos(call) + ", in which " + w
				}
			}
		}
		return ""
	}
	g := p.VTA()
	n := 0
	done := map[*ssa.BasicBlock]bool{}
	for _, sv := range svcs {
		in := false
		for _, nm := range sv.Names {
			if listed[nm] {
				in = true
			}
		}
		if !in {
			continue
		}
		reach, _ := handleReach(g, sv.Handle)
		var fns []*ssa.Function
		for fn := range reach {
			if strings.HasPrefix(RelPkg(PkgOf(fn)), "services") && fn.Blocks != nil {
				fns = append(fns, fn)
			}
		}
		sort.Slice(fns, func(i, j int) bool { return fns[i].Pos() < fns[j].Pos() })
		for _, fn := range fns {
			for _, l := range Loops(fn) {
				if done[l.Header] {
					continue
				}
				// the loop takes from a library-owned queue in its header (range over the channel)
				var q ssa.Value
				for _, ins := range l.Header.Instrs {
					if u, ok := ins.(*ssa.UnOp); ok && u.Op == token.ARROW && libraryOwnedChan(u.X) {
						q = u.X
					}
				}
				if q == nil {
					continue
				}
				done[l.Header] = true
				n++
				key := shortFn(fn) + " range over " + typeShortT(q.Type())
				w := waitingLoop(fn, l.Blocks, l, 0, map[*ssa.Function]bool{fn: true})
				// the loop ends only when the library closes the queue: leaving it earlier (return, break) abandons a queue the
				// connection's reader keeps filling – unless the queue is handed to a drainer first (go ssh.DiscardRequests(q))
				if w == "" {
					for lb := range l.Blocks {
						if lb == l.Header {
							continue
						}
						abandoned := false
						for _, in := range lb.Instrs {
							if _, isRet := in.(*ssa.Return); isRet {
								abandoned = true
							}
						}
						for _, sb := range lb.Succs {
							if !l.Blocks[sb] {
								abandoned = true
							}
						}
						if !abandoned {
							continue
						}
						drained := false
						for _, cl := range Calls(fn) {
							if g, isGo := cl.(*ssa.Go); isGo {
								for _, a := range g.Call.Args {
									if libraryOwnedChan(a) && (g.Block() == lb || g.Block().Dominates(lb)) {
										drained = true
									}
								}
							}
						}
						if !drained {
							w = "the loop can be left at " + p.InstrPos(lb.Instrs[len(lb.Instrs)-1]) + " while the queue is still open (no drainer takes it over)"
						}
					}
				}
				c.Check(w == "", "library-queue-drained", key, p.Pos(l.Header.Instrs[0].Pos()), "the loop body does not wait for the peer inline (sessions and shells run in goroutines of their own)",
					"this loop takes items from a bounded queue that the ssh library fills on the connection's reader goroutine, and it does not keep taking them: "+w+". Items that arrive meanwhile (window-change requests, channel opens) fill the queue (16), the reader blocks on it and sees neither data, the client's close nor the idle deadline: the handler never returns")
			}
		}
	}
	c.Floor("library-queue-drained", 2, "ssh-simulator: channel loop and request loop")
}

// c09DatagramEndReported: a pseudo-connection that serves one received datagram from a buffer it holds must report the
// end of the stream once the buffer is used up, however many Reads it took to use it up – the handlers of the datagram
// services read until Read fails. Its end-of-stream return is therefore decided by what is LEFT: len(buffer) == 0, or a
// read offset that has reached len(buffer), tested directly or through a flag that is only ever set from such a test.
// A flag computed from one Read's byte count (n == len(buffer)) is never set for a datagram taken in two or more Reads:
// Read then returns (0, nil) for ever and the handler spins.
func c09DatagramEndReported(c *Ctx) {
	p := c.P
	const rule = "datagram-end-reported"
	n := 0
	for _, nt := range p.NamedTypes() {
		if nt.Obj().Pkg() == nil {
			continue
		}
		rd := p.Method(RelPkg(nt.Obj().Pkg().Path()), nt.Obj().Name(), "Read")
		if rd == nil || rd.Blocks == nil || len(rd.Params) != 2 || !HasMethod(types.NewPointer(nt), "RemoteAddr") {
			continue
		}
		st, ok := nt.Underlying().(*types.Struct)
		if !ok {
			continue
		}
		// serves from a []byte field of its own and never delegates to another Read
		bufIdx := -1
		delegates := false
		for _, call := range Calls(rd) {
			cc := call.Common()
			if cc.IsInvoke() && cc.Method.Name() == "Read" {
				delegates = true
			}
			if f := cc.StaticCallee(); f != nil && f.Name() == "Read" && f != rd {
				delegates = true
			}
			if bi, isB := cc.Value.(*ssa.Builtin); isB && bi.Name() == "copy" && len(cc.Args) == 2 && bufBase(cc.Args[0]) == ssa.Value(rd.Params[1]) {
				src := cc.Args[1]
				for {
					if sl, isSl := src.(*ssa.Slice); isSl {
						src = sl.X
						continue
					}
					break
				}
				if idx, okF := recvFieldIdx(src, rd); okF {
					bufIdx = idx
				}
			}
		}
		if bufIdx < 0 || delegates {
			continue
		}
		n++
		isLoadOf := func(v ssa.Value, idx int) bool {
			if _, ok := v.(*ssa.UnOp); !ok {
				return false
			}
			i, ok := recvFieldIdx(v, rd)
			return ok && i == idx
		}
		isIntField := func(v ssa.Value) bool {
			if _, ok := v.(*ssa.UnOp); !ok {
				return false
			}
			i, ok := recvFieldIdx(v, rd)
			if !ok || i >= st.NumFields() {
				return false
			}
			bt, isB := st.Field(i).Type().Underlying().(*types.Basic)
			return isB && bt.Info()&types.IsInteger != 0
		}
		// drained(v, pol): the boolean v being pol means nothing is left
		var drained func(v ssa.Value, pol bool, depth int) bool
		drained = func(v ssa.Value, pol bool, depth int) bool {
			if depth > 3 {
				return false
			}
			switch x := v.(type) {
			case *ssa.UnOp:
				if x.Op == token.NOT {
					return drained(x.X, !pol, depth+1)
				}
				// a flag field: every store to it anywhere in the type's methods is such a test (or the constant false)
				fi, ok := recvFieldIdx(x, rd)
				if !ok || x.Op != token.MUL || !pol {
					return false
				}
				stores := 0
				for _, m := range p.FuncsIn(RelPkg(nt.Obj().Pkg().Path())) {
					for _, b := range m.Blocks {
						for _, in := range b.Instrs {
							s2, isSt := in.(*ssa.Store)
							if !isSt {
								continue
							}
							fa, isFA := s2.Addr.(*ssa.FieldAddr)
							if !isFA || fa.Field != fi || NamedOf(fa.X.Type()) != nt {
								continue
							}
							if k, isK := s2.Val.(*ssa.Const); isK && k.Value != nil && k.Value.String() == "false" {
								continue
							}
							stores++
							if m != rd || !drained(s2.Val, true, depth+1) {
								return false
							}
						}
					}
				}
				return stores > 0
			case *ssa.BinOp:
				lx, xLen := isLenOf(x.X)
				ly, yLen := isLenOf(x.Y)
				k, yConst := ConstInt(x.Y)
				// dc.remaining(): a method of the type that returns len(buffer)
				if hc, isCall := x.X.(*ssa.Call); isCall && !xLen {
					if hf := hc.Call.StaticCallee(); hf != nil && InRepo(hf) && hf.Blocks != nil && len(hc.Call.Args) == 1 && hc.Call.Args[0] == ssa.Value(rd.Params[0]) {
						if rets := Returns(hf); len(rets) == 1 && len(RetVals(rets[0])) == 1 {
							if l2, isL := isLenOf(RetVals(rets[0])[0]); isL {
								if i2, okI := recvFieldIdx(l2, hf); okI && i2 == bufIdx {
									if yConst && k == 0 {
										return (x.Op == token.EQL && pol) || (x.Op == token.LEQ && pol) || (x.Op == token.NEQ && !pol) || (x.Op == token.GTR && !pol)
									}
								}
							}
						}
					}
				}
				switch {
				case xLen && isLoadOf(lx, bufIdx) && yConst && k == 0: // len(buf) OP 0
					return (x.Op == token.EQL && pol) || (x.Op == token.LEQ && pol) || (x.Op == token.NEQ && !pol) || (x.Op == token.GTR && !pol)
				case isIntField(x.X) && yLen && isLoadOf(ly, bufIdx): // off OP len(buf)
					return ((x.Op == token.GEQ || x.Op == token.EQL) && pol) || ((x.Op == token.LSS || x.Op == token.NEQ) && !pol)
				case xLen && isLoadOf(lx, bufIdx) && isIntField(x.Y): // len(buf) OP off
					return ((x.Op == token.LEQ || x.Op == token.EQL) && pol) || ((x.Op == token.GTR || x.Op == token.NEQ) && !pol)
				}
			}
			return false
		}
		ok = false
		nerr := 0
		for _, r := range Returns(rd) {
			rv := RetVals(r)
			if len(rv) != 2 || IsNilConst(rv[1]) {
				continue
			}
			nerr++
			for _, dc := range DomConds(r) {
				if drained(dc.V, dc.Pol, 0) {
					ok = true
				}
			}
			// `if flag || len(buffer) == 0 { return 0, io.EOF }`: every way into the block is such a test
			if preds := r.Block().Preds; !ok && len(preds) >= 2 {
				all := true
				for _, pb := range preds {
					one := false
					for _, dc := range EdgeConds(pb, r.Block()) {
						if drained(dc.V, dc.Pol, 0) {
							one = true
						}
					}
					if !one {
						all = false
					}
				}
				if all {
					ok = true
				}
			}
		}
		c.Check(ok, rule, TypeKey(nt)+".Read", p.Pos(rd.Pos()), "the end of the stream is reported when nothing of the buffer is left",
			fmt.Sprintf("no error return of this Read (%d found) is decided by what is left of the buffer (len(buffer) == 0 / offset reached len(buffer), directly or through a flag only set from such a test): a datagram taken in two or more Reads never reaches the end-of-stream state, Read keeps returning (0, nil) and a handler that reads until an error spins for ever", nerr))
	}
	c.Floor(rule, 1, "listener.DummyUDPConn")
}

// c09HelperWaitsOnExit: a helper goroutine of a connection (ticker, feeder, pump) that is told to stop through a channel
// waits for that channel in a select. Every other place where it can block inside that loop must be a case of the same
// select: a plain send (or receive) in the loop body blocks for ever once the other end of that channel has gone – the
// handler has returned, the exit channel is closed, and the goroutine never looks at it again. One goroutine, its ticker
// and everything it references then stay behind per past connection.
func c09HelperWaitsOnExit(c *Ctx) {
	p := c.P
	const rule = "helper-waits-on-exit"
	n := 0
	for _, fn := range p.FuncsIn("services") {
		if fn.Blocks == nil || strings.HasPrefix(RelPkg(PkgOf(fn)), "services/ja3") || strings.HasSuffix(p.Fset.Position(fn.Pos()).Filename, "_test.go") {
			continue
		}
		for _, b := range fn.Blocks {
			for _, in := range b.Instrs {
				g, ok := in.(*ssa.Go)
				if !ok {
					continue
				}
				var gf *ssa.Function
				if mc, isMC := g.Call.Value.(*ssa.MakeClosure); isMC {
					gf, _ = mc.Fn.(*ssa.Function)
				} else {
					gf = g.Call.StaticCallee()
				}
				if gf == nil || gf.Blocks == nil || !InRepo(gf) {
					continue
				}
				for _, l := range Loops(gf) {
					// a blocking select in the loop with a receive case that leaves the goroutine
					var sel *ssa.Select
					for lb := range l.Blocks {
						for _, li := range lb.Instrs {
							if s, isS := li.(*ssa.Select); isS && s.Blocking {
								for _, st := range s.States {
									if st.Dir == types.RecvOnly && !strings.Contains(types.TypeString(st.Chan.Type(), nil), "time.Time") {
										sel = s
									}
								}
							}
						}
					}
					if sel == nil {
						continue
					}
					n++
					key := fmt.Sprintf("%s go#%d loop", shortFn(fn), goOrdinal(fn, g))
					bad := ""
					for lb := range l.Blocks {
						for _, li := range lb.Instrs {
							switch x := li.(type) {
							case *ssa.Send:
								bad = "a plain send on " + RenderN(x.Chan, 2) + " at " + p.InstrPos(x)
							case *ssa.UnOp:
								if x.Op == token.ARROW && !strings.Contains(types.TypeString(x.X.Type(), nil), "time.Time") {
									bad = "a plain receive from " + RenderN(x.X, 2) + " at " + p.InstrPos(x)
								}
							}
						}
					}
					c.Check(bad == "", rule, key, p.InstrPos(sel), "inside the loop the goroutine blocks only in the select that also watches its exit channel",
						"the goroutine watches its exit channel in a select, but its loop also contains "+bad+" outside that select: when nothing takes from (or sends to) that channel any more – the connection's frame pusher never started or has ended – the goroutine blocks there for ever and never sees the exit channel; it stays behind with its ticker for every such connection")
				}
			}
		}
	}
	c.Floor(rule, 1, "vnc frame feeder")
}
