package rules

import (
	"fmt"
	"go/token"
	"go/types"
	"sort"
	"strings"

	"golang.org/x/tools/go/callgraph"
	"golang.org/x/tools/go/ssa"

	. "htcheck/internal/core"
	"htcheck/internal/zone"
)

func init() { Registry["C02"] = c02 }

// recvLoopRoot finds the goroutine root in listener/canary that calls syscall.Recvfrom.
func recvLoopRoot(c *Ctx) *ssa.Function {
	for _, fn := range c.P.FuncsIn(canaryRel) {
		for _, call := range Calls(fn) {
			if f := call.Common().StaticCallee(); f != nil && FuncIs(f, "syscall", "Recvfrom") {
				return fn
			}
		}
	}
	return nil
}

// hasRecover reports whether fn installs a deferred function that calls recover() before anything else can panic
// (a defer in the entry block whose callee calls the recover builtin).
func hasRecover(fn *ssa.Function) bool {
	if len(fn.Blocks) == 0 {
		return false
	}
	for _, in := range fn.Blocks[0].Instrs {
		d, ok := in.(*ssa.Defer)
		if !ok {
			continue
		}
		var callee *ssa.Function
		switch v := d.Call.Value.(type) {
		case *ssa.Function:
			callee = v
		case *ssa.MakeClosure:
			callee, _ = v.Fn.(*ssa.Function)
		}
		if callee == nil {
			continue
		}
		for _, c2 := range Calls(callee) {
			if b, ok := c2.Common().Value.(*ssa.Builtin); ok && b.Name() == "recover" {
				return true
			}
		}
	}
	return false
}

// unprotectedReach: in-repo functions reachable from root on the same goroutine (call edges except `go`),
// not descending into functions that install their own recover. Returns function -> a call path from root.
func unprotectedReach(g *callgraph.Graph, root *ssa.Function) map[*ssa.Function][]string {
	out := map[*ssa.Function][]string{root: {shortFn(root)}}
	queue := []*ssa.Function{root}
	for len(queue) > 0 {
		fn := queue[0]
		queue = queue[1:]
		n := g.Nodes[fn]
		if n == nil {
			continue
		}
		edges := append([]*callgraph.Edge{}, n.Out...)
		sort.Slice(edges, func(i, j int) bool { return edges[i].Callee.Func.String() < edges[j].Callee.Func.String() })
		for _, e := range edges {
			if _, isGo := e.Site.(*ssa.Go); isGo {
				continue
			}
			cal := e.Callee.Func
			if cal == nil || !InRepo(cal) || cal.Blocks == nil {
				continue
			}
			if _, seen := out[cal]; seen {
				continue
			}
			if cal != root && hasRecover(cal) {
				continue
			}
			// deferred calls run on this goroutine too (kept)
			out[cal] = append(append([]string{}, out[fn]...), shortFn(cal))
			queue = append(queue, cal)
		}
	}
	return out
}

// killSite classifies a call that ends the goroutine/process: "panic", "fatal", "exit" or "".
func killSite(call ssa.CallInstruction) string {
	cc := call.Common()
	if b, ok := cc.Value.(*ssa.Builtin); ok && b.Name() == "panic" {
		return "panic"
	}
	f := cc.StaticCallee()
	if f == nil {
		return ""
	}
	pk := PkgOf(f)
	name := f.Name()
	switch {
	case pk == "os" && name == "Exit":
		return "exit"
	case pk == "log" && (strings.HasPrefix(name, "Fatal") || strings.HasPrefix(name, "Panic")):
		if strings.HasPrefix(name, "Panic") {
			return "panic"
		}
		return "fatal"
	case strings.HasSuffix(pk, "go-logging") && (strings.HasPrefix(name, "Fatal") || strings.HasPrefix(name, "Panic")):
		if strings.HasPrefix(name, "Panic") {
			return "panic"
		}
		return "fatal"
	}
	return ""
}

// frameTaint computes which slice/string values in the given functions derive from the receive buffer.
func frameTaint(p *Program, root *ssa.Function, fns []*ssa.Function) map[ssa.Value]bool {
	t := map[ssa.Value]bool{}
	fields := map[string]bool{}
	fkey := func(fa *ssa.FieldAddr) string {
		n := NamedOf(fa.X.Type())
		if n == nil {
			return ""
		}
		return n.String() + "#" + fmt.Sprint(fa.Field)
	}
	// seeds: slices of the array handed to syscall.Recvfrom
	for _, call := range Calls(root) {
		if f := call.Common().StaticCallee(); f != nil && FuncIs(f, "syscall", "Recvfrom") {
			a1 := call.Common().Args[1]
			t[a1] = true
			if sl, ok := a1.(*ssa.Slice); ok {
				t[sl.X] = true
				a1 = sl.X
			}
			// a slice kept in a variable (`buffer = make([]byte, n)` captured by the loop's goroutine): every load of that cell
			if ld, ok := a1.(*ssa.UnOp); ok && ld.Op == token.MUL {
				t[ld.X] = true
				if ld.X.Referrers() != nil {
					for _, ref := range *ld.X.Referrers() {
						if l2, isL := ref.(*ssa.UnOp); isL && l2.Op == token.MUL {
							t[l2] = true
						}
					}
				}
			}
		}
	}
	inSet := map[*ssa.Function]bool{}
	for _, fn := range fns {
		inSet[fn] = true
	}
	changed := true
	mark := func(v ssa.Value) {
		if v != nil && !t[v] {
			t[v] = true
			changed = true
		}
	}
	for changed {
		changed = false
		for _, fn := range fns {
			for _, b := range fn.Blocks {
				for _, in := range b.Instrs {
					switch x := in.(type) {
					case *ssa.Slice:
						if t[x.X] {
							mark(x)
						}
					case *ssa.Phi:
						for _, e := range x.Edges {
							if t[e] {
								mark(x)
							}
						}
					case *ssa.ChangeType:
						if t[x.X] {
							mark(x)
						}
					case *ssa.Convert:
						if t[x.X] {
							if _, ok := x.Type().Underlying().(*types.Basic); !ok || x.Type().Underlying().(*types.Basic).Info()&types.IsString != 0 {
								mark(x)
							}
						}
					case *ssa.Store:
						if t[x.Val] {
							if fa, ok := x.Addr.(*ssa.FieldAddr); ok {
								if k := fkey(fa); k != "" && !fields[k] {
									fields[k] = true
									changed = true
								}
							} else if a, ok := x.Addr.(*ssa.Alloc); ok {
								mark(a)
							}
						}
					case *ssa.UnOp:
						if x.Op == token.MUL {
							if fa, ok := x.X.(*ssa.FieldAddr); ok && fields[fkey(fa)] {
								mark(x)
							}
							if a, ok := x.X.(*ssa.Alloc); ok && t[a] {
								if _, isArr := a.Type().Underlying().(*types.Pointer).Elem().Underlying().(*types.Array); !isArr {
									mark(x)
								}
							}
						}
					case *ssa.Call:
						cc := x.Common()
						if bi, ok := cc.Value.(*ssa.Builtin); ok {
							if bi.Name() == "copy" && t[cc.Args[1]] {
								// the exact-copy idiom  d := make([]byte, len(src)); copy(d, src): d is frame bytes of frame-chosen length
								dst := cc.Args[0]
								if sl, ok := dst.(*ssa.Slice); ok && sl.Low == nil && sl.High == nil {
									dst = sl.X
								}
								if mk, ok := dst.(*ssa.MakeSlice); ok {
									if lc, ok := mk.Len.(*ssa.Call); ok {
										if lb, ok := lc.Call.Value.(*ssa.Builtin); ok && lb.Name() == "len" && t[lc.Call.Args[0]] {
											mark(mk)
										}
									}
								}
							}
							continue
						}
						callee := cc.StaticCallee()
						if callee == nil || !inSet[callee] {
							continue
						}
						for i, a := range cc.Args {
							if t[a] && i < len(callee.Params) {
								mark(callee.Params[i])
							}
						}
						// tainted results
						for _, r := range Returns(callee) {
							for ri, rv := range RetVals(r) {
								if t[rv] {
									if len(RetVals(r)) == 1 {
										mark(x)
									} else {
										for _, ref := range *x.Referrers() {
											if ex, ok := ref.(*ssa.Extract); ok && ex.Index == ri {
												mark(ex)
											}
										}
									}
								}
							}
						}
					}
				}
			}
		}
	}
	return t
}

// mayReturnNil: fn has a return whose (single pointer) result is the nil constant.
func mayReturnNil(fn *ssa.Function) bool {
	if fn == nil || fn.Blocks == nil || fn.Signature.Results().Len() != 1 {
		return false
	}
	if _, ok := fn.Signature.Results().At(0).Type().Underlying().(*types.Pointer); !ok {
		return false
	}
	return mayReturnNilD(fn, 0)
}

func mayReturnNilD(fn *ssa.Function, depth int) bool {
	for _, r := range Returns(fn) {
		// through phis: `var best *T; for … { best = x }; return best`
		for _, l := range phiLeaves(RetVals(r)[0]) {
			if IsNilConst(l.v) {
				return true
			}
			if call, ok := l.v.(*ssa.Call); ok && depth < 2 {
				if f := call.Call.StaticCallee(); f != nil && f != fn && f.Blocks != nil && InRepo(f) && f.Signature.Results().Len() == 1 {
					if _, isPtr := f.Signature.Results().At(0).Type().Underlying().(*types.Pointer); isPtr && mayReturnNilD(f, depth+1) {
						return true
					}
				}
			}
		}
	}
	return false
}

func c02(c *Ctx) {
	p := c.P
	c.Explanation = "Static check that no frame can terminate the raw listener: for the goroutine that calls syscall.Recvfrom (it has no recover) the same-goroutine call-graph reach inside listener/canary is computed (VTA; stopping at `go` statements and at callees that install their own recover) and three rules are decided for every input frame: " +
		"(a) no reachable panic/log.Fatal/os.Exit call site (exceptions are individually named with a re-checked premise), (b) no dereference of the result of a function that may return nil without a dominating != nil test, " +
		"(c) every index/slice/make on frame-derived bytes (inter-procedural taint from the Recvfrom buffer through slices, struct fields, copies, parameters and results) is proved in range by a difference-bound prover " +
		"(facts from dominating branch conditions, definitions, interval arithmetic, forwarding of struct-field loads to their reaching stores, per-edge case splits at phis). Entry assumption from the property: frames are at least 14 bytes. " +
		"ARP handling is excluded on the re-checked premise that Canary.doARP is never written. Self-constructed buffers (Marshal, send, checksum) are attempted and reported but not part of the claim."
	c.Assume("the kernel delivers at least a 14-byte link-layer header per frame (property's quantifier)")
	c.Assume("callees do not modify a header struct between a caller's guard and use of its fields (field loads without an intervening store in the function are one value)")
	root := recvLoopRoot(c)
	if !c.Anchor(root != nil, "recv-loop", "goroutine in listener/canary calling syscall.Recvfrom") {
		return
	}
	c.Check(!hasRecover(root), "recv-loop", "receive loop has no recover (premise)", p.Pos(root.Pos()), "unprotected root confirmed", "the receive loop now installs a recover: the rule's premise changed (still checked as unprotected)")
	reach := unprotectedReach(p.VTA(), root)
	var fns []*ssa.Function
	for fn := range reach {
		if strings.HasPrefix(RelPkg(PkgOf(fn)), canaryRel) {
			fns = append(fns, fn)
		}
	}
	sort.Slice(fns, func(i, j int) bool { return fns[i].String() < fns[j].String() })
	c.Extra["receive_loop_reach"] = len(fns)
	// premise: the switch that guards the call of handleARP in the receive loop can never become true – it is never stored
	// AND it is unexported (the configuration decoder fills exported fields by reflection, e.g. `DoARP bool toml:"do_arp"`)
	arpSwitch := "doARP"
	for _, fn := range fns {
		for _, call := range Calls(fn) {
			if f := call.Common().StaticCallee(); f != nil && f.Name() == "handleARP" {
				for _, dc := range DomConds(call) {
					atom, _ := condAtom(dc.V)
					if ld, ok := isLoad(atom); ok {
						if fa, ok := ld.X.(*ssa.FieldAddr); ok && types.Identical(ld.Type().Underlying(), types.Typ[types.Bool]) {
							arpSwitch = fieldNameOf(fa)
						}
					}
				}
			}
		}
	}
	doARPStores := 0
	for _, fn := range p.Funcs() {
		for _, b := range fn.Blocks {
			for _, in := range b.Instrs {
				if st, ok := in.(*ssa.Store); ok {
					if fa, ok := st.Addr.(*ssa.FieldAddr); ok && fieldNameOf(fa) == arpSwitch && strings.HasPrefix(RelPkg(PkgOf(fn)), canaryRel) {
						doARPStores++
					}
				}
			}
		}
	}
	arpDead := doARPStores == 0 && !token.IsExported(arpSwitch)
	c.Check(arpDead, "arp-unreachable-premise", "the ARP switch of the receive loop is never set", "-", "ARP handling is dead in every configuration: Canary."+arpSwitch+" is unexported and never written (premise for excluding it)", "Canary."+arpSwitch+" can now become true (it is written somewhere, or it is exported and so filled from the configuration file by the decoder): ARP parsing is reachable on the unrecovered receive loop and is analysed like the other parsers")
	excluded := func(fn *ssa.Function) bool {
		if !arpDead {
			return false
		}
		path := reach[fn]
		for _, s := range path {
			if strings.Contains(s, "handleARP") || strings.Contains(s, "/arp.") {
				return true
			}
		}
		return false
	}

	// (a) kill sites
	for _, fn := range fns {
		if excluded(fn) {
			continue
		}
		for _, b := range fn.Blocks {
			for _, in := range b.Instrs {
				if pn, ok := in.(*ssa.Panic); ok {
					c.Violate("no-kill-site", shortFn(fn)+" panic("+RenderN(pn.X, 2)+")", p.InstrPos(pn), "the unrecovered receive loop can reach this explicit panic via "+strings.Join(reach[fn], " > ")+": a frame history that gets here ends frame processing for the whole sensor")
				}
			}
		}
		for _, call := range Calls(fn) {
			k := killSite(call)
			if k == "" {
				continue
			}
			key := shortFn(fn) + " " + k + " " + calleeLabel(call)
			// named exceptions with re-checked premises
			if fn == root && k == "fatal" {
				// the two log.Fatalf after EpollWait: dominated by an EpollWait error, which is not frame-dependent
				ok := false
				for _, dc := range DomConds(call) {
					if strings.Contains(Render(dc.V), "syscall.EpollWait") {
						ok = true
					}
				}
				if ok {
					c.Except("no-kill-site", key, p.InstrPos(call), "exit on an epoll descriptor error, not reachable by any frame content (premise re-checked: dominated by EpollWait's error)")
					continue
				}
			}
			if fn.Name() == "to4byte" && k == "fatal" {
				// argument is net.IP.String() of addresses built by net.IPv4 in the ipv4 parser: premise checked at the call sites
				okPrem := true
				for _, caller := range fns {
					for _, c2 := range Calls(caller) {
						if c2.Common().StaticCallee() == fn {
							s := Render(c2.Common().Args[0])
							if !strings.Contains(s, "(net.IP).String(") {
								okPrem = false
							}
						}
					}
				}
				if okPrem {
					c.Except("no-kill-site", key, p.InstrPos(call), "parses the textual form of a net.IP produced by net.IPv4 (always a dotted quad); premise re-checked at every call site")
					continue
				}
			}
			c.Violate("no-kill-site", key, p.InstrPos(call), "the unrecovered receive loop can reach this "+k+" site via "+strings.Join(reach[fn], " > ")+": one frame history ends frame processing for the whole sensor")
		}
	}
	// (a') goroutines started while a frame is processed (per-datagram, per-connection handlers) are not under the
	// receive loop; each installs its own recover (directly in the deferred function: recover() one call deeper
	// returns nil) or cannot panic at all
	g := p.VTA()
	for _, fn := range fns {
		if excluded(fn) {
			continue
		}
		for _, b := range fn.Blocks {
			for _, in := range b.Instrs {
				gi, ok := in.(*ssa.Go)
				if !ok {
					continue
				}
				var sp *ssa.Function
				switch v := gi.Call.Value.(type) {
				case *ssa.Function:
					sp = v
				case *ssa.MakeClosure:
					sp, _ = v.Fn.(*ssa.Function)
				}
				if sp == nil {
					sp = gi.Call.StaticCallee()
				}
				key := "goroutine started in " + shortFn(fn) + " #" + fmt.Sprint(goOrdinal(fn, gi))
				if sp == nil || sp.Blocks == nil {
					c.Undecided("frame-goroutine-recovers", key, p.InstrPos(gi), "cannot resolve the function this goroutine runs")
					continue
				}
				if hasRecover(sp) {
					c.Ok("frame-goroutine-recovers", key, p.InstrPos(gi), "defers a function that itself calls recover() before doing anything else")
					continue
				}
				probs, n := goroutinePanicSites(p, g, sp)
				// decoders outside the repository and the standard library are not proved panic-free
				for f := range unprotectedReach(g, sp) {
					for _, call := range Calls(f) {
						cal := call.Common().StaticCallee()
						if cal != nil && !InRepo(cal) && strings.Contains(PkgOf(cal), ".") && !strings.Contains(PkgOf(cal), "go-logging") {
							probs = append(probs, panicSite{"third-party call", p.InstrPos(call), "calls " + FuncShort(cal) + " (third-party code, not proved panic-free on frame bytes)"})
						}
					}
				}
				sort.SliceStable(probs, func(i, j int) bool { return probs[i].pos < probs[j].pos })
				if len(probs) == 0 {
					c.Ok("frame-goroutine-recovers", key, p.InstrPos(gi), fmt.Sprintf("no recover, but nothing in its same-goroutine reach (%d functions) can panic", n))
					continue
				}
				why := probs[0].msg
				c.Violate("frame-goroutine-recovers", key, p.InstrPos(gi), "this goroutine handles a received datagram/connection without an effective recover (recover() only stops a panic when the deferred function itself calls it; a call one level deeper returns nil), and it can panic: "+why+" at "+probs[0].pos+": one malformed payload ends the whole process")
			}
		}
	}
	c.Floor("frame-goroutine-recovers", 2, "handleUDP per-datagram goroutine, handleTCP per-connection goroutine")
	// (b) may-nil
	for _, fn := range fns {
		if excluded(fn) {
			continue
		}
		for _, call := range Calls(fn) {
			cv, ok := call.(*ssa.Call)
			if !ok || !mayReturnNil(cv.Call.StaticCallee()) {
				continue
			}
			// values carrying the result: itself and phis merging it
			carriers := []ssa.Value{cv}
			for _, ref := range *cv.Referrers() {
				if ph, ok := ref.(*ssa.Phi); ok {
					carriers = append(carriers, ph)
				}
			}
			for _, v := range carriers {
				for _, ref := range *v.Referrers() {
					deref := false
					switch u := ref.(type) {
					case *ssa.FieldAddr:
						deref = u.X == v
					case *ssa.UnOp:
						deref = u.Op == token.MUL && u.X == v
					case *ssa.Call:
						if f := u.Call.StaticCallee(); f != nil && f.Signature.Recv() != nil && len(u.Call.Args) > 0 && u.Call.Args[0] == v {
							// method on possibly-nil pointer: a value-receiver method derefs immediately
							if _, isPtr := f.Signature.Recv().Type().(*types.Pointer); !isPtr {
								deref = true
							}
						}
					}
					if !deref {
						continue
					}
					in := ref.(ssa.Instruction)
					key := shortFn(fn) + " uses " + calleeLabel(cv) + " result"
					guarded := condNotNil(DomConds(in), v)
					if !guarded {
						// a phi merging the result is fine if on every edge the value is non-nil: check edges
						if ph, ok := v.(*ssa.Phi); ok {
							guarded = true
							for i, e := range ph.Edges {
								if IsNilConst(e) {
									guarded = false
								} else if call2, ok := e.(*ssa.Call); ok && mayReturnNil(call2.Call.StaticCallee()) {
									if !condNotNil(EdgeConds(ph.Block().Preds[i], ph.Block()), e) {
										guarded = false
									}
								}
							}
						}
					}
					c.Check(guarded, "nil-result-checked", key, p.InstrPos(in), "dereferenced only under a != nil test", "the result of "+calleeLabel(cv)+" (which returns nil when nothing matches) is dereferenced without a dominating nil test: a peer without an entry crashes the receive loop")
				}
			}
		}
	}
	// a mutex taken in the receive loop's reach and not released on some path blocks the loop at the next acquisition:
	// the listener stays up but stops processing frames
	lockReleaseRule(c, "recv-loop-lock-released", append([]*ssa.Function(nil), fns...), 2, "mutex acquisitions in the receive loop's reach", "the receive loop blocks for ever at the next acquisition")
	c02SendOnClosed(c, fns)
	c02NoRelock(c, fns)
	c02CounterReleased(c, canaryRel)
	// the knock detector is fed by every probe frame and runs without a recover: the one place where it indexes a list by a
	// frame-driven count is the port list of a report, which must be sized by the very set it is filled from (shared with C20)
	if kd := p.Method(canaryRel, "Canary", "knockDetector"); c.Anchor(kd != nil, "knock-list-index-safe", "(*canary.Canary).knockDetector") {
		c20PortListSized(c, "knock-list-index-safe", kd, c20PortListFns(kd))
		c.Floor("knock-list-index-safe", 1, "the port list of a port-scan report")
	}
	// (c) bounds on frame-derived data
	taint := frameTaint(p, root, fns)
	// scalar header fields handed to callees (hdr.TypeCode.String()): an integer parameter whose argument is read from a
	// frame-derived header, or computed from one, is frame-derived
	inFns := map[*ssa.Function]bool{}
	for _, fn := range fns {
		inFns[fn] = true
	}
	scalarFields := map[string]bool{}
	sfKey := func(fa *ssa.FieldAddr) string {
		n := NamedOf(fa.X.Type())
		if n == nil {
			return ""
		}
		return n.String() + "#" + fmt.Sprint(fa.Field)
	}
	for _, fn := range fns {
		for _, b := range fn.Blocks {
			for _, in := range b.Instrs {
				if st, ok := in.(*ssa.Store); ok {
					if fa, ok := st.Addr.(*ssa.FieldAddr); ok {
						if bt, ok := st.Val.Type().Underlying().(*types.Basic); ok && bt.Info()&types.IsInteger != 0 && idxFromFrame(st.Val, taint, 8) {
							if k := sfKey(fa); k != "" {
								scalarFields[k] = true
							}
						}
					}
				}
			}
		}
	}
	scalarFromFrame := func(a ssa.Value) bool {
		if idxFromFrame(a, taint, 8) {
			return true
		}
		if ld, ok := a.(*ssa.UnOp); ok && ld.Op == token.MUL {
			if fa, ok := ld.X.(*ssa.FieldAddr); ok && scalarFields[sfKey(fa)] {
				return true
			}
		}
		if ld, ok := a.(*ssa.UnOp); ok && ld.Op == token.MUL {
			if fa, ok := ld.X.(*ssa.FieldAddr); ok && (taint[fa.X] || taint[fa]) {
				return true
			}
		}
		if fl, ok := a.(*ssa.Field); ok && taint[fl.X] {
			return true
		}
		return false
	}
	for round := 0; round < 3; round++ {
		for _, fn := range fns {
			for _, call := range Calls(fn) {
				callee := call.Common().StaticCallee()
				if callee == nil || !inFns[callee] || callee.Blocks == nil {
					continue
				}
				for i, a := range call.Common().Args {
					if i >= len(callee.Params) || taint[callee.Params[i]] {
						continue
					}
					if bt, ok := a.Type().Underlying().(*types.Basic); !ok || bt.Info()&types.IsInteger == 0 {
						continue
					}
					if scalarFromFrame(a) {
						taint[callee.Params[i]] = true
					}
				}
			}
		}
	}
	nOb, nProved := 0, 0
	selfBuilt := map[string]int{}
	var notes []string
	for _, fn := range fns {
		if excluded(fn) {
			continue
		}
		pr := zone.New(fn)
		if fn.Name() == "Unmarshal" && RelPkg(PkgOf(fn)) == canaryRel+"/ethernet" && len(fn.Params) == 2 {
			pr.EntryLen[fn.Params[1]] = 14
		}
		ord := 0
		for _, b := range fn.Blocks {
			for _, in := range b.Instrs {
				var base ssa.Value
				switch x := in.(type) {
				case *ssa.IndexAddr:
					base = x.X
				case *ssa.Index:
					base = x.X
				case *ssa.Slice:
					base = x.X
				case *ssa.MakeSlice:
					base = nil
				default:
					continue
				}
				obs := pr.Obligations(in)
				if len(obs) == 0 {
					continue
				}
				isFrame := base != nil && taint[base]
				// a table of our own indexed by a value taken from the frame (a type/code field) is as much at the frame's mercy
				switch x := in.(type) {
				case *ssa.IndexAddr:
					isFrame = isFrame || idxFromFrame(x.Index, taint, 8)
				case *ssa.Index:
					isFrame = isFrame || idxFromFrame(x.Index, taint, 8)
				}
				if mk, isMk := in.(*ssa.MakeSlice); isMk {
					isFrame = lenFromFrame(mk.Len, taint, 6)
				}
				for _, o := range obs {
					ord++
					ok, why := pr.Prove(o, in)
					key := fmt.Sprintf("%s #%d %s: %s", shortFn(fn), ord, strings.TrimPrefix(fmt.Sprintf("%T", in), "*ssa."), o.What)
					if isFrame {
						nOb++
						if ok {
							nProved++
							c.Ok("frame-bounds", key, p.InstrPos(in), RenderN(in.(ssa.Value), 3))
						} else {
							c.Violate("frame-bounds", key, p.InstrPos(in), "not provably in range for every frame: "+RenderN(in.(ssa.Value), 4)+" – "+why+". A frame with this length field/size panics in the unrecovered receive loop")
						}
					} else if !ok {
						selfBuilt[shortFn(fn)]++
					}
				}
			}
		}
		for n := range pr.Notes {
			notes = append(notes, n)
		}
	}
	sort.Strings(notes)
	c.Extra["forwarding_assumptions"] = notes
	c.Extra["self_constructed_unproved"] = selfBuilt
	c.Floor("frame-bounds", 45, "ethernet, ipv4, tcp, udp, icmp parsers and checksum")
}

// lenFromFrame: the allocation size is computed from frame bytes (an element of a frame-derived slice) –
// sizes that are merely len() of frame slices are non-negative by construction.
func lenFromFrame(v ssa.Value, taint map[ssa.Value]bool, depth int) bool {
	if depth == 0 || v == nil {
		return false
	}
	switch x := v.(type) {
	case *ssa.UnOp:
		if ia, ok := x.X.(*ssa.IndexAddr); ok && taint[ia.X] {
			return true
		}
		return lenFromFrame(x.X, taint, depth-1)
	case *ssa.BinOp:
		return lenFromFrame(x.X, taint, depth-1) || lenFromFrame(x.Y, taint, depth-1)
	case *ssa.Convert:
		return lenFromFrame(x.X, taint, depth-1)
	case *ssa.Phi:
		for _, e := range x.Edges {
			if lenFromFrame(e, taint, depth-1) {
				return true
			}
		}
	case *ssa.Call:
		// binary.BigEndian.Uint16(frame[..]) etc.
		for _, a := range x.Call.Args {
			if taint[a] {
				if b, ok := x.Call.Value.(*ssa.Builtin); ok && b.Name() == "len" {
					return false
				}
				return true
			}
		}
	}
	return false
}

// c02SendOnClosed: a send on a closed channel panics – also as a case of a select that has a default. The receive loop
// has no recover, so a channel it sends on (the socket's wake-up channel, the knock queue) must not be one that any code
// of the listener closes: the send and the close are in different goroutines (the port handler closes, the loop sends),
// no ordering between them can be shown.
func c02SendOnClosed(c *Ctx, fns []*ssa.Function) {
	p := c.P
	const rule = "no-send-on-closable-channel"
	chanKeyOf := func(v ssa.Value) string {
		if ld, ok := v.(*ssa.UnOp); ok && ld.Op == token.MUL {
			if fa, ok := ld.X.(*ssa.FieldAddr); ok {
				if n := NamedOf(fa.X.Type()); n != nil {
					return TypeKey(n) + "." + fieldNameOf(fa)
				}
			}
			if g, ok := ld.X.(*ssa.Global); ok {
				return "var " + g.Name()
			}
		}
		return ""
	}
	closed := map[string]string{}
	for _, fn := range p.FuncsIn("listener") {
		for _, call := range Calls(fn) {
			if bi, ok := call.Common().Value.(*ssa.Builtin); ok && bi.Name() == "close" && len(call.Common().Args) == 1 {
				if k := chanKeyOf(call.Common().Args[0]); k != "" {
					closed[k] = p.InstrPos(call)
				}
			}
		}
	}
	n := 0
	for _, fn := range fns {
		for _, b := range fn.Blocks {
			for _, in := range b.Instrs {
				var chans []ssa.Value
				switch x := in.(type) {
				case *ssa.Send:
					chans = append(chans, x.Chan)
				case *ssa.Select:
					for _, st := range x.States {
						if st.Dir == types.SendOnly {
							chans = append(chans, st.Chan)
						}
					}
				}
				for _, ch := range chans {
					k := chanKeyOf(ch)
					if k == "" {
						continue
					}
					n++
					at, isClosed := closed[k]
					c.Check(!isClosed, rule, fmt.Sprintf("%s sends on %s #%d", shortFn(fn), k, n), p.InstrPos(in), "no code of the listener closes this channel",
						"the unrecovered receive loop sends on "+k+", which is closed at "+at+" (by another goroutine, e.g. the port handler after the peer's FIN): a segment that arrives afterwards makes the send panic with \"send on closed channel\" – a select with a default does not prevent that – and frame processing ends for the whole sensor")
				}
			}
		}
	}
	c.Floor(rule, 2, "the socket wake-up and the knock queue")
}

// c02NoRelock: sync.Mutex is not re-entrant. A function in the receive loop's reach that holds a mutex to its end (Lock
// with a deferred Unlock) must not call, directly or through other functions of the listener, something that locks the
// same mutex field again: the single receive-loop goroutine would park on itself and no later frame is processed (the
// exported Socket.Close locks the state's mutex that handleTCP already holds; the segment handler uses the unexported
// flush/close pair for that reason).
func c02NoRelock(c *Ctx, fns []*ssa.Function) {
	p := c.P
	const rule = "no-relock-of-held-mutex"
	muKey := func(v ssa.Value) string {
		if fa, ok := v.(*ssa.FieldAddr); ok {
			if n := NamedOf(fa.X.Type()); n != nil {
				return TypeKey(n) + "." + fieldNameOf(fa)
			}
		}
		return ""
	}
	// locks(f): mutex keys f (or its in-repo callees, depth 3) acquires
	memo := map[*ssa.Function]map[string]string{}
	var locks func(f *ssa.Function, depth int) map[string]string
	locks = func(f *ssa.Function, depth int) map[string]string {
		if m, ok := memo[f]; ok {
			return m
		}
		m := map[string]string{}
		memo[f] = m
		if f == nil || f.Blocks == nil || !InRepo(f) || depth > 3 {
			return m
		}
		for _, call := range Calls(f) {
			if _, isGo := call.(*ssa.Go); isGo {
				continue
			}
			cal := call.Common().StaticCallee()
			if cal == nil {
				continue
			}
			if PkgOf(cal) == "sync" && (cal.Name() == "Lock" || cal.Name() == "RLock") && len(call.Common().Args) > 0 {
				if k := muKey(call.Common().Args[0]); k != "" {
					m[k] = shortFn(f) + " (" + p.InstrPos(call) + ")"
				}
				continue
			}
			if strings.HasPrefix(RelPkg(PkgOf(cal)), canaryRel) {
				for k, v := range locks(cal, depth+1) {
					if _, ok := m[k]; !ok {
						m[k] = v
					}
				}
			}
		}
		return m
	}
	n := 0
	for _, fn := range fns {
		// mutexes held to the end of fn
		held := map[string]ssa.Instruction{}
		for _, call := range Calls(fn) {
			if _, isDefer := call.(*ssa.Defer); !isDefer {
				continue
			}
			cal := call.Common().StaticCallee()
			if cal != nil && PkgOf(cal) == "sync" && (cal.Name() == "Unlock" || cal.Name() == "RUnlock") && len(call.Common().Args) > 0 {
				if k := muKey(call.Common().Args[0]); k != "" {
					for _, c2 := range Calls(fn) {
						if _, isD := c2.(*ssa.Defer); isD {
							continue
						}
						f2 := c2.Common().StaticCallee()
						if f2 != nil && PkgOf(f2) == "sync" && (f2.Name() == "Lock" || f2.Name() == "RLock") && len(c2.Common().Args) > 0 && muKey(c2.Common().Args[0]) == k {
							held[k] = c2
						}
					}
				}
			}
		}
		for k, acq := range held {
			n++
			bad := ""
			for _, call := range Calls(fn) {
				if _, isGo := call.(*ssa.Go); isGo {
					continue
				}
				if _, isDefer := call.(*ssa.Defer); isDefer {
					continue
				}
				cal := call.Common().StaticCallee()
				if cal == nil || !InRepo(cal) || !before(acq, call) {
					continue
				}
				if where, ok := locks(cal, 0)[k]; ok {
					bad = "it calls " + FuncShort(cal) + " at " + p.InstrPos(call) + ", which locks " + k + " again in " + where
				}
			}
			c.Check(bad == "", rule, shortFn(fn)+" holds "+k, p.InstrPos(acq), "nothing called while the mutex is held locks it again", "this function holds "+k+" until it returns, and "+bad+": sync.Mutex is not re-entrant, the receive-loop goroutine blocks on itself and no further frame is processed")
		}
	}
	c.Floor(rule, 1, "handleTCP holds the state's mutex")
}

// idxFromFrame: an index computed (conversions, arithmetic, masks) from a value the frame taint reaches.
func idxFromFrame(v ssa.Value, taint map[ssa.Value]bool, depth int) bool {
	if depth == 0 || v == nil {
		return false
	}
	if _, isC := v.(*ssa.Const); isC {
		return false
	}
	if taint[v] || lenFromFrame(v, taint, 4) {
		return true
	}
	switch x := v.(type) {
	case *ssa.Convert:
		return idxFromFrame(x.X, taint, depth-1)
	case *ssa.ChangeType:
		return idxFromFrame(x.X, taint, depth-1)
	case *ssa.BinOp:
		return idxFromFrame(x.X, taint, depth-1) || idxFromFrame(x.Y, taint, depth-1)
	case *ssa.Phi:
		for _, e := range x.Edges {
			if idxFromFrame(e, taint, depth-1) {
				return true
			}
		}
	case *ssa.Call:
		// an integer function of frame-derived integers (CreateICMPv4TypeCode(data[0], data[1]), a.Code())
		if bt, ok := x.Type().Underlying().(*types.Basic); ok && bt.Info()&types.IsInteger != 0 {
			if b, isB := x.Call.Value.(*ssa.Builtin); isB && (b.Name() == "len" || b.Name() == "cap") {
				return false
			}
			for _, a := range x.Call.Args {
				if idxFromFrame(a, taint, depth-1) {
					return true
				}
			}
		}
	}
	return false
}
