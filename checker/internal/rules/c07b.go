package rules

import (
	"fmt"
	"go/token"
	"go/types"

	"golang.org/x/tools/go/ssa"

	. "htcheck/internal/core"
)

// c07WholeLineBatches: rotateFile.Write rotates *between* batches and splits only at newlines inside a batch, so it
// relies on every batch it is handed ending with a complete line. The only producers allowed in front of it are
// (a) io.Copy / WriteTo of a bytes.Buffer that is filled exclusively by json.Encoder.Encode (one whole line per call) and
// (b) a json.Encoder writing straight to it. Anything that cuts the stream at a byte count (bufio.Writer, a fixed
// chunk loop) can end a batch inside an event, which is then split across two files at the next rotation.
func c07WholeLineBatches(c *Ctx) {
	p := c.P
	rf := p.Type("pushers/file", "rotateFile")
	if !c.Anchor(rf != nil, "whole-line-batches", "type rotateFile") {
		return
	}
	isRotate := func(v ssa.Value) bool { n := NamedOf(v.Type()); return n != nil && n == rf }
	// a bytes.Buffer is line-complete when its only writers are json encoders
	lineBuffer := func(buf ssa.Value) (bool, string) {
		for _, r := range *buf.Referrers() {
			switch x := r.(type) {
			case *ssa.MakeInterface:
				for _, r2 := range *x.Referrers() {
					call, ok := r2.(ssa.CallInstruction)
					if !ok {
						continue
					}
					f := call.Common().StaticCallee()
					switch {
					case f != nil && PkgOf(f) == "encoding/json" && f.Name() == "NewEncoder":
					case f != nil && PkgOf(f) == "io" && f.Name() == "Copy" && call.Common().Args[1] == ssa.Value(x):
					default:
						return false, "the batch buffer is also written through " + calleeLabel(call)
					}
				}
			case ssa.CallInstruction:
				f := x.Common().StaticCallee()
				if f == nil {
					return false, "dynamic use of the batch buffer"
				}
				switch f.Name() {
				case "Len", "Reset", "WriteTo", "Bytes", "String", "Cap":
				default:
					if PkgOf(f) == "bytes" {
						return false, "the batch buffer is written with " + FuncShort(f) + " (not necessarily a whole line)"
					}
				}
			}
		}
		return true, ""
	}
	n := 0
	for _, fn := range p.FuncsIn("pushers/file") {
		for _, b := range fn.Blocks {
			for _, in := range b.Instrs {
				mi, ok := in.(*ssa.MakeInterface)
				if !ok || !isRotate(mi.X) {
					continue
				}
				for _, r := range *mi.Referrers() {
					call, ok := r.(ssa.CallInstruction)
					if !ok {
						continue
					}
					n++
					f := call.Common().StaticCallee()
					key := fmt.Sprintf("%s: rotateFile handed to %s", shortFn(fn), calleeLabel(call))
					switch {
					case f != nil && ((PkgOf(f) == "io" && f.Name() == "Copy" && call.Common().Args[0] == ssa.Value(mi)) || (MethodIs(f, "bytes", "Buffer", "WriteTo") && len(call.Common().Args) == 2 && call.Common().Args[1] == ssa.Value(mi))):
						// io.Copy(dest, &buf) and buf.WriteTo(dest) are the same thing: one Write of the whole buffer
						src := Unwrap(call.Common().Args[1])
						if f.Name() == "WriteTo" {
							src = Unwrap(call.Common().Args[0])
						}
						// the buffer may be captured by a closure (flush := func(){…}) or handed to a helper (flush(dest, &buf))
						src = c15Root(src)
						if fv, isFV := src.(*ssa.FreeVar); isFV {
							if bnd := freeVarBinding(fv); bnd != nil {
								src = bnd
							}
						}
						if pr, isP := src.(*ssa.Parameter); isP {
							var arg ssa.Value
							nSites := 0
							for _, g := range p.FuncsIn("pushers/file") {
								for _, c2 := range Calls(g) {
									if c2.Common().StaticCallee() == pr.Parent() && paramIdx(pr) < len(c2.Common().Args) {
										arg = c15Root(Unwrap(c2.Common().Args[paramIdx(pr)]))
										nSites++
									}
								}
							}
							if nSites == 1 && arg != nil {
								src = arg
							}
						}
						if a, isA := src.(*ssa.Alloc); isA && NamedOf(a.Type()) != nil && NamedOf(a.Type()).Obj().Name() == "Buffer" {
							if ok, why := lineBuffer(a); ok {
								c.Ok("whole-line-batches", key, p.InstrPos(call), "io.Copy of a buffer filled only by json.Encoder.Encode: every batch is a sequence of complete lines")
							} else {
								c.Violate("whole-line-batches", key, p.InstrPos(call), why+": a batch may end inside an event, which the next rotation then splits across two files")
							}
						} else {
							c.Violate("whole-line-batches", key, p.InstrPos(call), "the batch copied to the log file is not a local buffer of encoded events: "+Render(src))
						}
					case f != nil && PkgOf(f) == "encoding/json" && f.Name() == "NewEncoder":
						c.Ok("whole-line-batches", key, p.InstrPos(call), "one Write per encoded event")
					case f != nil && (f.Name() == "Errorf" || f.Name() == "Debugf" || f.Name() == "Printf"):
						n--
					default:
						c.Violate("whole-line-batches", key, p.InstrPos(call), "the rotating log file is written through "+calleeLabel(call)+", which cuts the stream at byte counts rather than at event boundaries: a flush can end inside an event, and when the file is rotated before the remainder is written the event is split across two files (neither half parses)")
					}
				}
			}
		}
		// direct Write calls from outside the type's own methods
		for _, call := range Calls(fn) {
			f := call.Common().StaticCallee()
			if f == nil || f.Name() != "Write" || f.Signature.Recv() == nil || NamedOf(f.Signature.Recv().Type()) != rf {
				continue
			}
			if fn.Signature.Recv() != nil && NamedOf(fn.Signature.Recv().Type()) == rf {
				continue
			}
			n++
			c.Violate("whole-line-batches", shortFn(fn)+": direct rotateFile.Write", p.InstrPos(call), "a caller writes to the rotating file directly; the batch's line-completeness cannot be established")
		}
	}
	c.Check(n >= 1, "whole-line-batches", "producer in front of rotateFile found", "-", fmt.Sprint(n), "no producer writes to the rotating file any more")
}

// c07DescriptorKept: the descriptor events are written to is closed only once its replacement is open. A Close of the
// active descriptor anywhere else (before the rename, before os.OpenFile has succeeded) leaves a closed file in place
// when that later step fails; once the destination is back the path exists again, no reopen happens, and every
// accepted event is lost with "file already closed".
func c07DescriptorKept(c *Ctx) {
	c.Explanation += " (6) the active descriptor is closed only under the success outcome of the os.OpenFile that replaces it."
	p := c.P
	rt := p.Type(fileRel, "rotateFile")
	if !c.Anchor(rt != nil, "descriptor-kept-until-replaced", "type pushers/file.rotateFile") {
		return
	}
	isOSFile := func(t types.Type) bool {
		pt, ok := t.(*types.Pointer)
		if !ok {
			return false
		}
		n := NamedOf(pt.Elem())
		return n != nil && n.Obj().Pkg() != nil && n.Obj().Pkg().Path() == "os" && n.Obj().Name() == "File"
	}
	desc := fieldByType(rt, isOSFile)
	if !c.Anchor(desc != "", "descriptor-kept-until-replaced", "rotateFile's *os.File field") {
		return
	}
	openOK := func(at ssa.Instruction) bool {
		for _, dc := range DomConds(at) {
			b, isB := dc.V.(*ssa.BinOp)
			if !isB || !IsNilConst(b.Y) {
				continue
			}
			if !((b.Op == token.EQL && dc.Pol) || (b.Op == token.NEQ && !dc.Pol)) {
				continue
			}
			ex, isE := b.X.(*ssa.Extract)
			if !isE || ex.Index != 1 {
				continue
			}
			if oc, isC := ex.Tuple.(*ssa.Call); isC {
				if f := oc.Call.StaticCallee(); f != nil && (FuncIs(f, "os", "OpenFile") || FuncIs(f, "os", "Create")) {
					return true
				}
			}
		}
		return false
	}
	n := 0
	for _, fn := range p.FuncsIn(fileRel) {
		for _, call := range Calls(fn) {
			f := call.Common().StaticCallee()
			if f == nil || !MethodIs(f, "os", "File", "Close") || len(call.Common().Args) == 0 {
				continue
			}
			ld, ok := call.Common().Args[0].(*ssa.UnOp)
			if !ok {
				continue
			}
			fa, ok := ld.X.(*ssa.FieldAddr)
			if !ok || fieldNameOf(fa) != desc || NamedOf(fa.X.Type()) == nil || NamedOf(fa.X.Type()).Obj() != rt.Obj() {
				continue
			}
			key := shortFn(fn) + " closes " + desc
			if fn.Signature.Recv() != nil && fn.Name() == "Close" {
				c.Ok("descriptor-kept-until-replaced", key, p.InstrPos(call), "the channel's own Close (final)")
				continue
			}
			n++
			c.Check(openOK(call), "descriptor-kept-until-replaced", key, p.InstrPos(call), "closed only after os.OpenFile returned the replacement", "the active descriptor is closed before its replacement is open: when the rename/open that follows fails (destination temporarily unavailable) the closed file stays in place, and after the path is back every write and sync fails with \"file already closed\" – accepted events are lost until restart")
		}
	}
}
