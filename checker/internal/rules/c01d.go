package rules

import (
	"go/token"
	"go/types"

	. "htcheck/internal/core"

	"golang.org/x/tools/go/ssa"
)

// nilledFields: struct fields of repository types that some function sets to the nil constant (`x.f = nil`), with one
// such store each. A reader on another goroutine can find the field nil at any time.
func nilledFields(p *Program) map[*types.Var]ssa.Instruction {
	out := map[*types.Var]ssa.Instruction{}
	for _, fn := range p.Funcs() {
		for _, b := range fn.Blocks {
			for _, in := range b.Instrs {
				st, ok := in.(*ssa.Store)
				if !ok || !IsNilConst(st.Val) {
					continue
				}
				fa, ok := st.Addr.(*ssa.FieldAddr)
				if !ok {
					continue
				}
				if f := fieldVarOf(fa); f != nil {
					if _, dup := out[f]; !dup {
						out[f] = in
					}
				}
			}
		}
	}
	return out
}

func fieldVarOf(fa *ssa.FieldAddr) *types.Var {
	t := fa.X.Type().Underlying()
	if pt, ok := t.(*types.Pointer); ok {
		t = pt.Elem().Underlying()
	}
	st, ok := t.(*types.Struct)
	if !ok || fa.Field >= st.NumFields() {
		return nil
	}
	return st.Field(fa.Field)
}

// nilFieldUses: in fn, uses that panic on nil (interface method call, pointer dereference) of a value loaded from a
// field some other function sets to nil, where no branch condition on a load of the same field dominates the use.
func nilFieldUses(p *Program, fn *ssa.Function, nilled map[*types.Var]ssa.Instruction) (out []panicSite) {
	load := func(v ssa.Value) (*types.Var, *ssa.UnOp) {
		u, ok := v.(*ssa.UnOp)
		if !ok || u.Op != token.MUL {
			return nil, nil
		}
		fa, ok := u.X.(*ssa.FieldAddr)
		if !ok {
			return nil, nil
		}
		f := fieldVarOf(fa)
		if f == nil {
			return nil, nil
		}
		if _, ok := nilled[f]; !ok {
			return nil, nil
		}
		return f, u
	}
	checked := func(at ssa.Instruction, f *types.Var, u *ssa.UnOp) bool {
		for _, cd := range DomConds(at) {
			b, ok := cd.V.(*ssa.BinOp)
			if !ok {
				continue
			}
			var other ssa.Value
			switch {
			case IsNilConst(b.Y):
				other = b.X
			case IsNilConst(b.X):
				other = b.Y
			default:
				continue
			}
			if !((b.Op == token.NEQ && cd.Pol) || (b.Op == token.EQL && !cd.Pol)) {
				continue
			}
			if other == ssa.Value(u) {
				return true // the very value that was tested
			}
			// `if x.f != nil { x.f.M() }`: another load of the same field of the same object
			if f2, u2 := load(other); u2 != nil && f2 == f {
				fa1, _ := u.X.(*ssa.FieldAddr)
				fa2, _ := u2.X.(*ssa.FieldAddr)
				if fa1 != nil && fa2 != nil && c15Root(fa1.X) == c15Root(fa2.X) {
					return true
				}
			}
		}
		return false
	}
	for _, b := range fn.Blocks {
		for _, in := range b.Instrs {
			var v ssa.Value
			what := ""
			switch x := in.(type) {
			case ssa.CallInstruction:
				if x.Common().IsInvoke() {
					v, what = x.Common().Value, "method call on the interface"
				}
			case *ssa.FieldAddr:
				v, what = x.X, "field access through the pointer"
			case *ssa.UnOp:
				if x.Op == token.MUL {
					if _, isFA := x.X.(*ssa.FieldAddr); !isFA {
						v, what = x.X, "dereference of the pointer"
					}
				}
			}
			if v == nil {
				continue
			}
			f, u := load(v)
			if f == nil || checked(in, f, u) {
				continue
			}
			if nilled[f].Parent() == fn {
				continue
			}
			out = append(out, panicSite{"nil field " + f.Name() + " used in " + shortFn(fn), p.InstrPos(in),
				what + " held in field " + f.Name() + " in an unrecovered goroutine, while " + shortFn(nilled[f].Parent()) + " (" + p.InstrPos(nilled[f]) + ") sets that field to nil and nothing here tests the loaded value: when the other side clears it first, this is a nil dereference outside any recover and the process dies"})
		}
	}
	return out
}
