package rules

import (
	"fmt"
	"strings"

	"golang.org/x/tools/go/ssa"

	. "htcheck/internal/core"
)

// c17NoListAliasing: a list built by appending to a RE-SLICE of another object's list (the in-place filter idiom
// `out := in.val[:0]; out = append(out, v)`) writes into the other list's backing array. In the IPP package the decoded
// request's groups are read again after the response is assembled (event fields, print-job attributes), so a list that
// ends up in a different object than the one it was cut from makes request and response overwrite each other.
func c17NoListAliasing(c *Ctx) {
	p := c.P
	nApp := 0
	for _, fn := range p.FuncsIn("services/ipp") {
		if strings.HasSuffix(p.Fset.Position(fn.Pos()).Filename, "_test.go") {
			continue
		}
		for _, b := range fn.Blocks {
			for _, in := range b.Instrs {
				call, ok := in.(*ssa.Call)
				if !ok {
					continue
				}
				bi, ok := call.Call.Value.(*ssa.Builtin)
				if !ok || bi.Name() != "append" {
					continue
				}
				nApp++
				src, ok := resliceOrigin(call.Call.Args[0])
				if !ok {
					continue
				}
				key := fmt.Sprintf("append over a re-slice of %s.%s in %s", typeShortOf(src), fieldNameOf(src), shortFn(fn))
				same := true
				dsts := storedInto(call)
				for _, d := range dsts {
					if c15Root(d.X) != c15Root(src.X) || d.Field != src.Field {
						same = false
					}
				}
				if len(dsts) > 0 && same {
					c.Ok("ipp-no-list-aliasing", key, p.InstrPos(call), "compaction of the object's own list")
				} else {
					c.Violate("ipp-no-list-aliasing", key, p.InstrPos(call), "elements are appended into the backing array of "+fieldNameOf(src)+" of another object (in-place filter over a re-slice) and the result is kept elsewhere: the decoded request's attributes are overwritten by the response being built, so the fields read from the request afterwards (ipp.uri, ipp.user, job-name) are lost or wrong")
				}
			}
		}
	}
	c.Check(nApp >= 5, "ipp-no-list-aliasing", "append sites examined", "-", fmt.Sprint(nApp), "fewer append sites than the IPP codec is known to have")
}
