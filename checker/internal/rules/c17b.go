package rules

import (
	"fmt"
	"go/token"
	"go/types"
	"strings"

	"golang.org/x/tools/go/ssa"

	. "htcheck/internal/core"
	"htcheck/internal/zone"
)

// c17NoListAliasing: a list built by appending to a RE-SLICE of another object's list (the in-place filter idiom
// `out := in.val[:0]; out = append(out, v)`) writes into the other list's backing array. In the IPP package the decoded
// request's groups are read again after the response is assembled (event fields, print-job attributes), so a list that
// ends up in a different object than the one it was cut from makes request and response overwrite each other.
func c17NoListAliasing(c *Ctx) {
	p := c.P
	nApp := 0
	for _, fn := range p.FuncsIn("services/ipp") {
		if strings.HasSuffix(p.Fset.Position(fn.Pos()).Filename, "_test.go") {
			continue
		}
		for _, b := range fn.Blocks {
			for _, in := range b.Instrs {
				call, ok := in.(*ssa.Call)
				if !ok {
					continue
				}
				bi, ok := call.Call.Value.(*ssa.Builtin)
				if !ok || bi.Name() != "append" {
					continue
				}
				nApp++
				src, ok := resliceOrigin(call.Call.Args[0])
				if !ok {
					continue
				}
				key := fmt.Sprintf("append over a re-slice of %s.%s in %s", typeShortOf(src), fieldNameOf(src), shortFn(fn))
				same := true
				dsts := storedInto(call)
				for _, d := range dsts {
					if c15Root(d.X) != c15Root(src.X) || d.Field != src.Field {
						same = false
					}
				}
				if len(dsts) > 0 && same {
					c.Ok("ipp-no-list-aliasing", key, p.InstrPos(call), "compaction of the object's own list")
				} else {
					c.Violate("ipp-no-list-aliasing", key, p.InstrPos(call), "elements are appended into the backing array of "+fieldNameOf(src)+" of another object (in-place filter over a re-slice) and the result is kept elsewhere: the decoded request's attributes are overwritten by the response being built, so the fields read from the request afterwards (ipp.uri, ipp.user, job-name) are lost or wrong")
				}
			}
		}
	}
	c.Check(nApp >= 5, "ipp-no-list-aliasing", "append sites examined", "-", fmt.Sprint(nApp), "fewer append sites than the IPP codec is known to have")
}

// decoderErrorSticky: once a read has failed, LastError stays non-nil for the life of the decoder – every store to
// the decoder's error field outside a constructor stores a value known to be non-nil at that point. The IPP decode
// loops leave only through that error (inner decode results are discarded and re-examined at the top of the next
// iteration), so a store that can clear it turns a truncated request into an endless loop that keeps appending.
func decoderErrorSticky(c *Ctx, rule string) {
	p := c.P
	dt := p.Type(decRel, "Decode")
	if !c.Anchor(dt != nil, rule, "decoder.Decode") {
		return
	}
	errField := fieldByType(dt, IsErrorType)
	if !c.Anchor(errField != "", rule, "decoder.Decode's error field") {
		return
	}
	n := 0
	for _, fn := range p.FuncsIn(decRel) {
		for _, b := range fn.Blocks {
			for _, in := range b.Instrs {
				st, ok := in.(*ssa.Store)
				if !ok {
					continue
				}
				fa, ok := st.Addr.(*ssa.FieldAddr)
				if !ok || fieldNameOf(fa) != errField || NamedOf(fa.X.Type()) == nil || NamedOf(fa.X.Type()).Obj() != dt.Obj() {
					continue
				}
				if _, fresh := fa.X.(*ssa.Alloc); fresh {
					continue // a decoder under construction
				}
				n++
				key := shortFn(fn) + " stores " + errField
				nonNil := NeverNil(st.Val)
				if _, isMI := st.Val.(*ssa.MakeInterface); isMI {
					nonNil = true
				}
				for _, dc := range DomConds(st) {
					bo, isB := dc.V.(*ssa.BinOp)
					if !isB || !IsNilConst(bo.Y) || bo.X != st.Val {
						continue
					}
					if (bo.Op == token.NEQ && dc.Pol) || (bo.Op == token.EQL && !dc.Pol) {
						nonNil = true
					}
				}
				c.Check(nonNil, rule, key, p.InstrPos(st), "only a non-nil error is recorded (the recorded error is never cleared)", "this store can put nil into the decoder's recorded error (`"+RenderN(st.Val, 3)+"` is not known to be non-nil here): a successful operation after a failed read clears the failure, and callers that look at LastError later – the IPP decode loops check it once per iteration – carry on with zero values as if nothing had happened, e.g. looping forever over a truncated request")
			}
		}
	}
	c.Floor(rule, 2, "the failing arms of the read primitives and of Seek")
}

// c17EncoderWholeValue: the IPP reply is produced by the encoder; what it announces in a length prefix it must also write.
// copy() silently transfers fewer bytes when its destination is shorter than its source, so wherever the encoder
// assembles a value in a scratch buffer the copy must be proved to take the whole source (len(src) <= len(dst) for every
// input); otherwise a value of one particular length is cut short behind a prefix that still announces it in full, and
// every field after it is read from the wrong offset.
func c17EncoderWholeValue(c *Ctx) {
	p := c.P
	const rule = "encoder-writes-whole-value"
	n := 0
	for _, fn := range p.FuncsIn(decRel) {
		if strings.HasSuffix(p.Fset.Position(fn.Pos()).Filename, "_test.go") {
			continue
		}
		pr := zone.New(fn)
		for _, call := range Calls(fn) {
			cv, ok := call.(*ssa.Call)
			if !ok {
				continue
			}
			o, ok := pr.CopyObligation(cv)
			if !ok {
				continue
			}
			n++
			good, why := pr.Prove(o, cv)
			c.Check(good, rule, fmt.Sprintf("%s copy #%d", shortFn(fn), n), p.InstrPos(cv), "the destination is at least as long as the source", "copy(…) here can transfer fewer bytes than its source holds ("+why+"): for values of that length the encoder writes a shorter value than its length prefix announces, silently, and everything after it is misaligned")
		}
	}
	if n == 0 {
		c.Ok(rule, "services/decoder", "-", "no value is assembled through copy() into a bounded buffer")
	}
}

// c17RequestBodyWhole: what the IPP decoder gets to see is the request body in full. Reader.Read may return fewer bytes
// than the buffer holds (the body sits behind the bufio.Reader that parsed the head and hands out what is buffered at
// that moment), so the bytes handed to the message decoder must come from a read-to-the-end: ReadAll, or a buffer filled
// by io.ReadFull / io.ReadAtLeast / io.Copy / ReadFrom, directly or through a helper all of whose results are such.
func c17RequestBodyWhole(c *Ctx) {
	p := c.P
	const rule = "request-body-read-whole"
	var handle *ssa.Function
	for _, sv := range Services(c) {
		if hasName(sv, "ipp") {
			handle = sv.Handle
		}
	}
	if !c.Anchor(handle != nil, rule, "ipp service Handle") {
		return
	}
	filledWhole := func(buf ssa.Value, fn *ssa.Function) bool {
		for _, call := range Calls(fn) {
			f := call.Common().StaticCallee()
			if f == nil {
				continue
			}
			if (FuncIs(f, "io", "ReadFull") || FuncIs(f, "io", "ReadAtLeast")) && len(call.Common().Args) >= 2 {
				for _, lf := range leaves(call.Common().Args[1]) {
					if sliceBase(lf) == sliceBase(buf) {
						return true
					}
				}
			}
		}
		return false
	}
	var judge func(v ssa.Value, fn *ssa.Function, depth int) (bool, string)
	judge = func(v ssa.Value, fn *ssa.Function, depth int) (bool, string) {
		for _, lf := range leaves(v) {
			if IsNilConst(lf) {
				continue
			}
			switch x := lf.(type) {
			case *ssa.Extract:
				if call, ok := x.Tuple.(*ssa.Call); ok && x.Index == 0 {
					f := call.Call.StaticCallee()
					if FuncIs(f, "io/ioutil", "ReadAll") || FuncIs(f, "io", "ReadAll") {
						continue
					}
					if f != nil && InRepo(f) && f.Blocks != nil && depth < 3 {
						ok, why := true, ""
						for _, r := range Returns(f) {
							if o, w := judge(RetVals(r)[0], f, depth+1); !o {
								ok, why = false, w
							}
						}
						if ok {
							continue
						}
						return false, "in " + shortFn(f) + ": " + why
					}
				}
			case *ssa.Call:
				f := x.Call.StaticCallee()
				if f != nil && MethodIs(f, "bytes", "Buffer", "Bytes") {
					// a bytes.Buffer filled by ReadFrom / io.Copy
					for _, c2 := range Calls(fn) {
						f2 := c2.Common().StaticCallee()
						if f2 != nil && (MethodIs(f2, "bytes", "Buffer", "ReadFrom") || FuncIs(f2, "io", "Copy") || FuncIs(f2, "io", "CopyN")) {
							return true, ""
						}
					}
				}
				if f != nil && InRepo(f) && f.Blocks != nil && depth < 3 && f.Signature.Results().Len() == 1 {
					ok, why := true, ""
					for _, r := range Returns(f) {
						if o, w := judge(RetVals(r)[0], f, depth+1); !o {
							ok, why = false, w
						}
					}
					if ok {
						continue
					}
					return false, "in " + shortFn(f) + ": " + why
				}
			case *ssa.MakeSlice:
				if filledWhole(x, fn) {
					continue
				}
				return false, "a buffer made at " + p.InstrPos(x) + " that no io.ReadFull/ReadAtLeast fills (a single Read may return before the body has arrived)"
			case *ssa.Slice:
				if filledWhole(x, fn) {
					continue
				}
			}
			return false, RenderN(lf, 3)
		}
		return true, ""
	}
	n := 0
	for _, call := range Calls(handle) {
		f := call.Common().StaticCallee()
		if f == nil || !InRepo(f) || RelPkg(PkgOf(f)) != "services/ipp" || f.Signature.Recv() != nil {
			continue
		}
		for i, a := range call.Common().Args {
			if types.TypeString(a.Type(), nil) != "[]byte" || i >= len(f.Params) {
				continue
			}
			// the message decoder: an in-repo function of the package that takes the raw request
			n++
			ok, why := judge(a, handle, 0)
			c.Check(ok, rule, "request handed to "+shortFn(f), p.InstrPos(call), "the decoder receives a body that was read to its end",
				"the bytes handed to the IPP decoder are "+why+": when the body arrives in more than one piece (a print job larger than what is buffered) the tail is missing or zero, attributes and document decode differently from what was sent")
		}
	}
	c.Floor(rule, 1, "Handle → ippHandler")
}
